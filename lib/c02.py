"""C02 - codec round trip (DESIGN section 4, C02).

MC   : MC_Codec.tla (Mode "vec") enumerates the abstract packet domain of Codec.tla - all 29 kinds,
       16- and 32-bit packet identifiers, optional fields, 0..n properties of every kind, lengths
       on both sides of every boundary - and checks the reference for internal consistency.
S->I : every abstract packet is built with the public builder; size(), to_continuous_buffer(),
       concatenated to_buffers(), parse(body), consumed and the accessors are recorded.
I->S : Trace_Codec.tla (MODE C02) judges every record: the size, the Remaining Length field on the
       wire, the contiguous and the vectored serialisation agree; the bytes parse back into an
       equal packet (library == and accessor values) and exactly the body is consumed.
Clauses: panic, size, vectored, remaining-length, reparse-accepts, reparse-equal, consumed.
A builder refusing a packet the specification considers valid is DRIFT (the statement quantifies
over packets the builders accept), and a tool error if a whole kind is refused.
"""
import time

import codec_common as cc
import vlib

PROP = "C02"


def main(tier, replay=None):
    t0 = time.time()
    if replay:
        return cc.run_replay(PROP, "C02", replay, cc.pattern_vec)
    res = cc.vec_pipeline(PROP, "C02", "MC_Codec_vec_%s.cfg" % tier, tier, cc.pattern_vec, sso_variants=True)
    cc.require_all_kinds(res["by_kind"])
    cc.require_all_cells(res["cells"])
    mc = res["mc"]
    cov = {
        "states": mc["distinct"],
        "transitions": mc["printed"],
        "traces_validated_against_impl": res["judged"],
        "samples": res["samples"],
        "exhaustive": False,
        "finite_tables_exhaustive": True,
        "evaluations": res["items"],
        "distinct_nontrivial": res["built"],
        "rule": "MC_Codec (vec, %s) enumerates abstract packets: fields vary over the full length lattice "
                "{0,1,10..13,22..25,46..49,127,128,16383,16384,65535} plus payloads up to 2 MiB and Remaining Length 127/128, "
                "16383/16384, 2097151/2097152, and %s; every reason code of every kind and every property at every allowed "
                "location appears (finite tables: complete). Each distinct packet is one vector executed on the real builders / "
                "parsers and judged by TLC. distinct_nontrivial = distinct vectors the real builder accepted (all clauses "
                "evaluated)." % (tier, "all pairs of fields over the full lattice" if tier == "quick" else
                                 "all pairs and all triples of fields over the full lattice"),
        "vectors_per_kind": res["by_kind"],
        "property_cells_built": res["cells"],
        "panics_observed": res["panics"],
        "sso_feature_builds": res["sso_variants"],
        "violating_records": res["violating_records"],
        "checker_cmd": "tlc MC_Codec_vec_%s.cfg MC_Codec; codec-harness vec; MODE=C02 tlc Trace_Codec" % tier,
    }
    return cc.finish(PROP, tier, "model_checking", res, cov, [
        "lengths strictly between lattice points are not enumerated (DESIGN section 5)",
        "string contents are runs of one byte chosen by the specification (plus a few multi-byte UTF-8 samples); contents are not randomised",
        "equality of the re-parsed packet = the library's own == plus equality of every public accessor value",
        "quick: the harness is built with the library's default features (small-string optimisation off); thorough additionally runs the quick vector set on builds with sso-min-32bit, sso-min-64bit and sso-lv20",
    ], t0)
