"""Shared driver of the connection-level checks (C05..C08, C10..C17, C19):

  MC   : TLC model-checks the slices of MC_Endpoint.tla named for the property (Props' predicates as an
         action property over every transition + design invariants); a failure there is a tool error.
  S->I : every explored transition (history of public calls) is replayed on real GenericConnection objects
         by conn-harness, together with seeded random histories; everything is recorded as an NDJSON trie.
  I->S : TLC (Trace_Endpoint.tla) walks the trie, advances the ghost from the logged observables, evaluates
         the property's predicates at every node (VIOL lines = the verdict) and runs Endpoint.tla in lock-step
         (DRIFT lines = report only).
"""
import json
import os
import random
import time

import slices
import vlib


def node_pattern(nodes, nid, new_of):
    n = nodes[nid]
    c = n["call"]
    root = nodes[new_of[nid]]["call"] if new_of[nid] is not None else {"role": "?", "ver": "?"}
    s = "%s/%s %s" % (root.get("role", "?"), n["obs"].get("ver", root.get("ver", "?")), c["op"])
    p = c["pkt"]
    if c["op"] in ("send", "recv"):
        s += " " + p["kind"]
        if p["kind"] == "publish":
            s += " q%d" % p["qos"]
            if p["alias"]:
                s += " alias" if p["topic"] else " alias-only"
        elif p["kind"] in ("puback", "pubrec", "pubrel", "pubcomp", "connack", "disconnect") and p["rc"]:
            s += " rc%d" % p["rc"]
        if p["kind"] in ("connect",):
            s += " clean" if p["clean"] else " resume"
        if p["kind"] == "connack" and p["sp"]:
            s += " sp"
        if p["kind"] in ("connect", "connack") and p["sei"] == 0:
            s += " sei0"
        if p.get("bad"):
            s += " bad"
    elif c["op"] == "fire":
        s += " " + c["k"]
    elif c["op"] in ("register", "release"):
        s += " id0" if c["id"] == 0 else " id"
    return s


def compute_new_of(nodes):
    new_of = [None] * len(nodes)
    for n in nodes:
        i = n["id"]
        if i == 0:
            continue
        if n["call"]["op"] == "new":
            new_of[i] = i
        else:
            new_of[i] = new_of[n["parent"]]
    return new_of


def write_trace_cfg(wd, props, level_b=True):
    p = os.path.join(wd, "Trace_%s.cfg" % "_".join(sorted(props)))
    with open(p, "w") as f:
        f.write("SPECIFICATION Spec\nPOSTCONDITION AllVisited\nCHECK_DEADLOCK FALSE\nCONSTANTS\n")
        f.write(" CheckProps = {%s}\n LevelB = %s\n" % (", ".join('"%s"' % x for x in sorted(props)), "TRUE" if level_b else "FALSE"))
    return p


def judge(prop, trie_path, wd, level_b=True, workers=8):
    cfg = write_trace_cfg(wd, {prop}, level_b)
    res = vlib.tlc("Trace_Endpoint", cfg, wd, workers=workers, xmx="8g", timeout=1800, env={"TRIE": trie_path}, xss="1g", deque=True)
    txt = open(res["out"], errors="replace").read()
    if not res["completed"]:
        import sys
        sys.stderr.write("\n".join(txt.splitlines()[-40:]) + "\n")
        raise vlib.ToolError("trace validation did not complete")
    if '<<"UNVISITED"' in txt:
        raise vlib.ToolError("trace validation did not visit every trie node")
    viols = vlib.tagged(res["out"], "VIOL")
    drifts = vlib.tagged(res["out"], "DRIFT")
    return viols, drifts, res


def group(prop, nodes, viols):
    new_of = compute_new_of(nodes)
    groups = {}
    depth = {}
    for nid, clauses in viols:
        for c in clauses:
            if not c.startswith(prop):
                continue
            pat = node_pattern(nodes, nid, new_of)
            sig = "%s|%s|%s" % (prop, c, pat)
            g = groups.setdefault(sig, {"clause": c, "pattern": pat, "count": 0, "example": nid})
            g["count"] += 1
            d = len(vlib.path_to(nodes, nid))
            if d < depth.get(sig, 10 ** 9):
                depth[sig] = d
                g["example"] = nid
    return groups


def make_replay_fn(nodes):
    def make_replay(nid):
        p = vlib.path_to(nodes, nid)[1:]
        last = nodes[nid]
        return {"harness": "conn", "schedule": {"hist": [x["call"] for x in p]},
                "failing_step": {"call": last["call"], "out": last["out"], "obs": last["obs"], "panic": last["panic"], "msg": last.get("msg", ""),
                                 "shadow": last.get("shadow"), "outF": last.get("outF")}}
    return make_replay


def brief_path(nodes, nid, maxlen=14):
    out = []
    for x in vlib.path_to(nodes, nid)[1:][:maxlen]:
        c = x["call"]
        d = {"op": c["op"]}
        if c["op"] in ("send", "recv"):
            p = c["pkt"]
            d["pkt"] = {k: p[k] for k in ("kind", "ver", "pid", "qos", "topic", "alias", "rc", "sp", "clean", "rm", "tam", "mps", "sei", "ska", "ka", "size") if p[k] not in (0, -1, "", False)}
        elif c["op"] == "new":
            d.update(role=c["role"], ver=c["ver"], idw=c["idw"])
        elif c["op"] == "fire":
            d["k"] = c["k"]
        elif c["op"] in ("acquire", "register", "release", "erase"):
            d["id"] = c["id"]
        elif c["op"] == "opt":
            d["name"] = c["name"]
        d["events"] = [e["ev"] + (":" + e["pkt"]["kind"] if e["ev"] in ("send", "recv") else ":" + e["err"] if e["ev"] == "error" else "") for e in x["out"]]
        out.append(d)
    return out


def run(prop, tier, quick_slices, thorough_slices, nontrivial, drive_profile="mixed", replay=None,
        quick_edges=30000, thorough_edges=200000, assumptions=None, extra_rule=""):
    """nontrivial(node) -> bool : the property's antecedent fired at this node (for distinct_nontrivial)."""
    t0 = time.time()
    wd = vlib.workdir(prop)
    binary = vlib.build("conn-harness")
    trie = os.path.join(wd, "trie.ndjson")

    if replay:
        rep = json.load(open(replay))
        sched = os.path.join(wd, "schedule.ndjson")
        with open(sched, "w") as f:
            f.write(json.dumps(rep["schedule"]) + "\n")
        vlib.harness(binary, ["run", "--edges", sched, "--out", trie])
        viols, drifts, _ = judge(prop, trie, wd, workers=2)
        nodes = vlib.load_trie(trie)
        groups = group(prop, nodes, viols)
        code, nv, nk = vlib.verdict(prop, groups, make_replay_fn(nodes))
        print("replay: %d calls executed, %d violating nodes for %s" % (len(nodes) - 1, sum(1 for v in viols if any(c.startswith(prop) for c in v[1])), prop))
        return code

    thorough = tier == "thorough"
    names = thorough_slices if thorough else quick_slices
    limit = thorough_edges if thorough else quick_edges
    slices.write_all(vlib.SPEC)
    states = transitions = 0
    edge_files = []
    per_slice = {}
    rng = random.Random(vlib.seed())
    res = vlib.tlc_many("MC_Endpoint", ["MC_%s.cfg" % n for n in names], wd, parallel=2 if thorough else 4,
                        workers=8 if thorough else 4, xmx="24g" if thorough else "8g", timeout=3000 if thorough else 600)
    mcs = {name: res["MC_%s.cfg" % name] for name in names}
    # replay budget (number of maximal schedules): equal shares, what a small slice does not need goes to the larger ones
    extracted, graphs = {}, {}
    walks = 30000 if thorough else 5000
    for name in names:
        mc = mcs[name]
        if not mc["completed"] or mc["errors"]:
            txt = open(mc["out"], errors="replace").read()
            sv = [l[:600] for l in txt.splitlines() if l.startswith('<<"SPECVIOL"')][:2]
            raise vlib.ToolError("slice %s: the specification violates its own properties/invariants: %s %s" % (name, mc["errors"][:2], sv))
        graphs[name] = vlib.Graph()
        extracted[name] = vlib.maximal_schedules(mc["out"], graph=graphs[name])
        os.remove(mc["out"])
        if extracted[name][0] == 0:
            raise vlib.ToolError("slice %s produced no transitions" % name)
    shares = vlib.water_fill({n: len(extracted[n][1]) for n in names}, limit)
    # besides the transition cover (which continues only the FIRST history found to each state): random walks through
    # the explored state graph, so that states are also reached - and left - by other histories
    wshares = vlib.water_fill({n: 2 * extracted[n][0] for n in names}, walks)
    for name in names:
        total, lines, parent = extracted[name]
        ef = os.path.join(wd, "edges_%s.ndjson" % name)
        kept, covered = vlib.write_schedules(lines, parent, ef, limit=shares[name], rng_seed=rng.randrange(1 << 30))
        wl = graphs[name].walks(wshares[name], random.Random(rng.randrange(1 << 30)))
        # the same schedules on the other instantiations: 32-bit packet identifiers, and role Any in the place of a
        # fixed role (Any may do whatever Client or Server may) - judged by the trace specification like any other history
        r2 = random.Random(rng.randrange(1 << 30))
        pool = [l for l in open(ef)] if os.path.getsize(ef) < 400_000_000 else []
        variants = []
        allv = os.environ.get("VERIF_VARIANTS") == "all"      # soak mode: every schedule on every instantiation
        for l in r2.sample(pool, len(pool) if allv else min(len(pool), max(50, len(pool) // 8))):
            variants.append(l.replace('"idw":16', '"idw":32'))
        for l in r2.sample(pool, len(pool) if allv else min(len(pool), max(50, len(pool) // 12))):
            v = l.replace('"role":"client"', '"role":"any"', 1).replace('"role":"server"', '"role":"any"', 1)
            if v != l:
                variants.append(v)
        with open(ef, "a") as f:
            for l in wl:
                f.write(l + "\n")
            for l in variants:
                f.write(l if l.endswith("\n") else l + "\n")
        states += mcs[name]["distinct"]
        transitions += total
        per_slice[name] = {"states": mcs[name]["distinct"], "transitions": total, "replayed": covered, "schedules": kept,
                           "maximal_schedules": len(lines), "graph_walks": len(wl), "u32_and_any_role_variants": len(variants)}
        edge_files.append(ef)
    del extracted

    # one harness process + one Trace_Endpoint run per slice (and one for the random histories), side by side:
    # every TLC worker deserialises the whole trie it walks, so several small tries are cheaper than one big one
    drive_n = "400" if thorough else "40"
    twin = ["--checked"] if prop == "C11" else []      # C11: a twin object driven through checked_send runs alongside
    parts = []
    for ef in edge_files:
        pieces = vlib.split_schedules(ef)
        for k, q in enumerate(pieces):
            parts.append((os.path.basename(ef)[6:-7] + ("" if len(pieces) == 1 else ".%d" % k), twin + ["--edges", q]))
    parts.append(("random", twin + (["--probe"] if prop == "C11" else []) +
                  ["--drive", drive_n, "--seed", str(vlib.seed()), "--steps", "120" if thorough else "60", "--profile", drive_profile]))
    t_mc = time.time() - t0

    def do_part(item):
        pname, pargs = item
        pwd = os.path.join(wd, "part_" + pname)
        os.makedirs(pwd, exist_ok=True)
        ptrie = os.path.join(pwd, "trie.ndjson")
        phs = vlib.harness(binary, ["run"] + pargs + ["--out", ptrie], timeout=3000)
        if phs.get("nondeterministic"):
            raise vlib.ToolError("the library behaved non-deterministically: %s" % phs["nondeterministic"][:1])
        pviols, pdrifts, _ = judge(prop, ptrie, pwd, workers=4 if thorough else 2)
        pnodes = vlib.load_trie(ptrie)
        if not os.environ.get("VERIF_KEEP"):
            os.remove(ptrie)
        # everything that is needed from the nodes is computed here, so that the nodes can be dropped (thorough runs
        # have hundreds of thousands of them)
        g = group(prop, pnodes, pviols)
        mk = make_replay_fn(pnodes)
        for sig in g:
            g[sig]["example"] = mk(g[sig]["example"])
        nt = [n["id"] for n in pnodes[1:] if nontrivial(n)]
        leaves = [n["id"] for n in pnodes if not n["kids"] and n["id"] != 0]
        sample = brief_path(pnodes, nt[len(nt) // 2] if nt else leaves[0]) if (nt or leaves) else None
        # histories at which the real object's observable state left the specification's (first one on each path)
        dh = [([n["call"] for n in vlib.path_to(pnodes, nid)[1:]], tuple(sorted(fields))) for nid, fields in pdrifts[:400]] \
            if pname.split(".")[0] in graphs else []
        return pname, phs, pviols, pdrifts, g, len(nt), len(leaves), len(pnodes), sample, dh

    from concurrent.futures import ThreadPoolExecutor
    with ThreadPoolExecutor(max_workers=4 if thorough else 8) as ex:
        results = list(ex.map(do_part, parts))
    # second pass, guided by the lock-step comparison: wherever the real object's state departed from the
    # specification's (DRIFT - not a verdict by itself), EVERY continuation of that very history by up to three model
    # steps is replayed and judged like any other history: a departure that the property does not forbid at once
    # (something left behind in the store, a counter off by one) is followed to where the property sees it
    nb_parts, nb_stats = [], {}
    seen_sig = set()
    r3 = random.Random(rng.randrange(1 << 30))
    for res_ in results:
        pname, dh = res_[0], res_[9]
        sl = pname.split(".")[0]
        for calls, fields in dh:
            if nb_stats.get(sl, [0, 0])[0] >= (40 if thorough else 10):
                break
            loc = graphs[sl].locate(calls) if sl in graphs else None
            if os.environ.get("VERIF_DEBUG_NB"):
                vlib.log("[nb] %s departure at depth %d fields=%s located=%s" % (pname, len(calls), fields, bool(loc)))
            if not loc:
                continue
            sig = (sl, loc[1], fields)
            if sig in seen_sig:
                continue
            seen_sig.add(sig)
            lines_ = graphs[sl].neighbourhood(loc[0], loc[1], 3, 5000 if thorough else 2000, r3)
            st_ = nb_stats.setdefault(sl, [0, 0])
            st_[0] += 1
            st_[1] += len(lines_)
            nf = os.path.join(wd, "nb_%s.ndjson" % sl)
            with open(nf, "a") as f:
                for l in lines_:
                    f.write(l + "\n")
    for sl in nb_stats:
        per_slice[sl]["departures_followed"] = nb_stats[sl][0]
        per_slice[sl]["neighbourhood_schedules"] = nb_stats[sl][1]
        if nb_stats[sl][1] == 0:          # the departures were at the end of the explored graph
            continue
        nf = os.path.join(wd, "nb_%s.ndjson" % sl)
        pieces = vlib.split_schedules(nf)
        for k, q in enumerate(pieces):
            nb_parts.append(("nb_" + sl + ("" if len(pieces) == 1 else ".%d" % k), twin + ["--edges", q]))
    graphs.clear()
    if nb_parts:
        vlib.log("[second pass] departures followed per slice (histories, schedules of their 3-step neighbourhood): %s" % json.dumps(nb_stats, sort_keys=True))

        def do_nb(item):
            # a tool failure in the second pass must not hide what the first pass has established
            try:
                return do_part(item)
            except vlib.ToolError as e_:
                vlib.log("[second pass] part %s failed and is ignored: %s" % (item[0], str(e_)[:300]))
                return None
        with ThreadPoolExecutor(max_workers=4 if thorough else 8) as ex:
            results += [x for x in ex.map(do_nb, nb_parts) if x is not None]
    vlib.log("[time] build+model-check %.0fs, harness+judge %.0fs" % (t_mc, time.time() - t0 - t_mc))
    groups, viols, drifts = {}, [], []
    hs = {"calls": 0, "panics": 0, "inapplicable": 0, "ops": {}}
    nt_n = leaves_n = trie_n = 0
    samples = []
    for pname, phs, pviols, pdrifts, g, n_nt, n_leaves, n_nodes, sample, _dh in results:
        for sig, gg in g.items():
            if sig in groups:
                groups[sig]["count"] += gg["count"]
            else:
                groups[sig] = gg
        viols += pviols
        drifts += pdrifts
        for k in ("calls", "panics", "inapplicable"):
            hs[k] += phs.get(k, 0)
        for k, v in phs.get("ops", {}).items():
            hs["ops"][k] = hs["ops"].get(k, 0) + v
        nt_n += n_nt; leaves_n += n_leaves; trie_n += n_nodes
        if len(samples) < 3 and sample:
            samples.append(sample)
    code, nv, nk = vlib.verdict(prop, groups, lambda ex_: ex_)
    # drift: report, never a verdict
    dfields = {}
    for nid, fields in drifts:
        for f in fields:
            dfields[f] = dfields.get(f, 0) + 1
    if drifts:
        print("DRIFT paths=%d fields=%s (lock-step disagreement with Endpoint.tla; report only)" % (len(drifts), json.dumps(dfields, sort_keys=True)))
    args = ["run", "--edges", "<one per slice>"] + parts[-1][1]

    vlib.write_evidence(prop, tier, "model_checking", {
        "states": states,
        "transitions": transitions,
        "traces_validated_against_impl": leaves_n,
        "samples": samples,
        "exhaustive": False,
        "evaluations": hs.get("calls", 0),
        "distinct_nontrivial": nt_n,
        "rule": ("TLC explores the slices %s of MC_Endpoint.tla exhaustively (all interleavings of the slice's alphabet); "
                 "each explored transition is a history of public calls replayed on the real library (at most %d maximal schedules per run, sampled by seed, plus seeded random walks through the explored state graph), "
                 "plus %s seeded random histories; every distinct call prefix is one trie node judged by TLC. "
                 "distinct_nontrivial = trie nodes at which %s" % (names, limit, args[args.index("--drive") + 1], extra_rule)),
        "slices": per_slice,
        "trie_nodes": trie_n,
        "real_calls": hs.get("calls", 0),
        "harness_ops": hs.get("ops", {}),
        "inapplicable_schedules": hs.get("inapplicable", 0),
        "library_panics_observed": hs.get("panics", 0),
        "violating_nodes": sum(1 for v in viols if any(c.startswith(prop) for c in v[1])),
        "known_finding_signatures": nk,
        "disagreements_checked": len(drifts),
        "drift_fields": dfields,
        "checker_cmd": "tlc MC_Endpoint (%s); conn-harness %s; tlc Trace_Endpoint CheckProps={%s}" % (",".join(names), " ".join(a for a in args if not a.startswith("/")), prop),
        "repo_head": vlib.repo_head(),
    }, (assumptions or []) + [
        "abstract packets use fixed concrete encodings (client id 'c', filter 't1', 2-byte topics/payloads); other field values are covered by the codec checks",
        "the environment contract (ids from acquire/register, timers fired only when armed, only notify_closed after a close request) is enforced by the schedule generator",
        "state-digest clauses read the library's fields through the verif_state hook",
    ], time.time() - t0, nv)
    return code
