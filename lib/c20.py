"""C20 - value allocator = set of free integers, smallest first (DESIGN section 4, C20).

MC   : MC_Allocator.tla - every range inside 0..MaxV, every operation sequence (finite, complete),
       refinement of the free-set semantics + representation invariant.
S->I : every explored transition replayed on real ValueAllocator<u8|i8|u16|i16|u32> placements
       (bottom, top of the type, across zero) and PacketIdManager.
I->S : seeded random long sequences + exhaustion runs, all judged by TLC (Trace_Alloc.tla) on
       answers and on the hook's interval list.
"""
import json
import os
import time

import vlib

PROP = "C20"
OFF32 = 1 << 31


def pattern(node):
    """call pattern of a violating node: op + position of the argument relative to the range"""
    op = node["op"]
    if op in ("use_value", "is_used", "deallocate"):
        v, lo, hi = node["v"], node["lo"], node["hi"]
        where = "below" if v < lo else "above" if v > hi else "in-range"
        return "%s %s" % (op, where)
    return op


def real_schedule(path_nodes):
    new = path_nodes[1]
    off = OFF32 if new["ty"] in ("u32", "pm32") else 0
    cfg = {"ty": new["ty"], "lo": new["lo"] + off, "hi": new["hi"] + off}
    ops = [{"op": n["op"], "v": (n["v"] + off)} for n in path_nodes[2:]]
    return {"cfg": cfg, "ops": ops}


def judge(trie_path, wd):
    viols, tres = vlib.trace_check("Trace_Alloc", "Trace_Alloc.cfg", trie_path, wd)
    nodes = vlib.load_trie(trie_path)
    groups = {}
    for nid, clauses in viols:
        for c in clauses:
            pat = pattern(nodes[nid])
            sig = "%s|%s|%s" % (PROP, c, pat)
            g = groups.setdefault(sig, {"clause": c, "pattern": pat, "count": 0, "example": nid, "depth": 10**9})
            g["count"] += 1
            d = len(vlib.path_to(nodes, nid))
            if d < g["depth"]:
                g["depth"], g["example"] = d, nid

    def make_replay(nid):
        p = vlib.path_to(nodes, nid)
        return {"harness": "alloc", "schedule": real_schedule(p), "failing_call": {k: nodes[nid][k] for k in ("op", "v", "ok", "val", "ivs", "panic", "msg", "ty", "lo", "hi")}}

    return nodes, viols, groups, make_replay, tres


def main(tier, replay=None):
    t0 = time.time()
    wd = vlib.workdir(PROP)
    binary = vlib.build("alloc-harness")
    trie = os.path.join(wd, "trie.ndjson")
    if replay:
        rep = json.load(open(replay))
        sched = os.path.join(wd, "schedule.ndjson")
        with open(sched, "w") as f:
            f.write(json.dumps(rep["schedule"]) + "\n")
        vlib.harness(binary, ["run", "--schedule", sched, "--out", trie])
        nodes, viols, groups, make_replay, _ = judge(trie, wd)
        code, nv, nk = vlib.verdict(PROP, groups, make_replay)
        print("replay: %d nodes, %d violating nodes" % (len(nodes), len(viols)))
        return code

    thorough = tier == "thorough"
    maxv = 5 if thorough else 4
    cfg = os.path.join(wd, "MC_Allocator.cfg")
    # the committed cfg is the quick one; thorough only changes the constant
    src = open(os.path.join(vlib.SPEC, "MC_Allocator.cfg")).read().replace("MaxV = 4", "MaxV = %d" % maxv)
    cfgname = "MC_Allocator.%s.cfg" % tier
    with open(os.path.join(vlib.SPEC, cfgname), "w") as f:
        f.write(src)
    try:
        mc = vlib.tlc("MC_Allocator", cfgname, wd, workers=8 if not thorough else 16, timeout=1200)
    finally:
        os.remove(os.path.join(vlib.SPEC, cfgname))
    if not mc["completed"] or mc["errors"]:
        raise vlib.ToolError("MC_Allocator: specification does not satisfy its own properties: %s" % mc["errors"][:2])
    edges = os.path.join(wd, "edges.ndjson")
    total, kept = vlib.edges_to_file(mc["out"], edges)
    ops_seen = {}
    for l in open(edges):
        op = json.loads(l)["hist"][-1]["op"]
        ops_seen[op] = ops_seen.get(op, 0) + 1
    missing = {"allocate", "first_vacant", "use_value", "deallocate", "is_used", "clear"} - set(ops_seen)
    if missing:
        raise vlib.ToolError("vacuous model run: operations never taken: %s" % sorted(missing))

    args = ["run", "--edges", edges, "--maxv", str(maxv), "--stride", "1" if thorough else "3",
            "--seed", str(vlib.seed()), "--steps", "10000" if thorough else "1500",
            "--runs", "6" if thorough else "2", "--exhaust", "u16" if thorough else "u8", "--out", trie]
    hs = vlib.harness(binary, args)
    if hs.get("nondeterministic"):
        raise vlib.ToolError("allocator behaved non-deterministically: %s" % hs["nondeterministic"][:1])
    nodes, viols, groups, make_replay, tres = judge(trie, wd)
    if thorough:
        # second exhaustion run through PacketIdManager<u16> (1..65535), own trie to bound memory
        trie2 = os.path.join(wd, "trie_pm.ndjson")
        hs2 = vlib.harness(binary, ["run", "--exhaust", "pm16", "--out", trie2])
        n2, v2, g2, mr2, _ = judge(trie2, wd)
        hs["calls"] += hs2["calls"]
        hs["leaves"] += hs2["leaves"]
        if g2:
            code2, nv2, nk2 = vlib.verdict(PROP, g2, mr2)
        else:
            code2, nv2, nk2 = 0, 0, 0
    else:
        code2, nv2, nk2 = 0, 0, 0
    code, nv, nk = vlib.verdict(PROP, groups, make_replay)
    code = max(code, code2)

    nontrivial = sum(1 for n in nodes if len(n.get("ivs", [])) >= 2)
    leaves = [n for n in nodes if not n["kids"]]
    sample_paths = []
    for n in leaves[:2] + leaves[-1:]:
        p = vlib.path_to(nodes, n["id"])[1:8]
        sample_paths.append([{"op": x["op"], "ty": x["ty"], "v": x["v"], "ok": x["ok"], "val": x["val"], "ivs": x["ivs"][:4]} for x in p])
    vlib.write_evidence(PROP, tier, "model_checking", {
        "states": mc["distinct"],
        "transitions": total,
        "traces_validated_against_impl": hs["leaves"],
        "samples": sample_paths,
        "exhaustive": True,
        "evaluations": hs["calls"],
        "distinct_nontrivial": nontrivial,
        "rule": "MC_Allocator explores every sub-range of 0..%d and every operation sequence to a fixpoint (exhaustive: the state space is finite); every explored transition is replayed on the real allocator at %s placements; plus seeded random sequences and an exhaustion run. distinct_nontrivial = trie nodes (distinct call prefixes executed on the real code and judged by TLC) whose free list has >= 2 intervals." % (maxv, "12" if thorough else "2-12"),
        "model_ops_taken": ops_seen,
        "trie_nodes": len(nodes),
        "real_calls": hs["calls"],
        "inapplicable_schedules": hs["inapplicable"],
        "violating_nodes": len(viols),
        "known_finding_signatures": nk + nk2,
        "checker_cmd": "tlc MC_Allocator (MaxV=%d); alloc-harness %s; tlc Trace_Alloc" % (maxv, " ".join(args[:-2])),
        "repo_head": vlib.repo_head(),
    }, [
        "Allocator.tla's interval operators are the reference; they are model-checked against the free-set semantics only for ranges inside 0..MaxV and assumed translation-invariant beyond",
        "32-bit values are logged in offset binary (v - 2^31) because TLC integers are 32-bit",
        "deallocate is only called for values the real allocator handed out and has not yet got back (its documented contract)",
        "the interval list is read through the verif_intervals hook",
    ], time.time() - t0, nv + nv2)
    return code
