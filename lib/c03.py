"""C03 - wire format matches the OASIS specification (DESIGN section 4, C03).

Codec.tla is the independently written reference (Enc, SizeOf transcribed from the OASIS texts).
Forwards : to_continuous_buffer(build(p)) = Enc(p) byte for byte (the harness expands the
           specification's run-length segments and reports equality + first differing offset; TLC
           judges that flag and re-derives the length arithmetically: cont_len = SizeOf(p)).
Backwards: the harness feeds Enc(p) - reference bytes, not the library's - to parse(); TLC compares
           every accessor value with the abstract fields of p (property identifiers are mapped by
           the harness's own table keyed by variant name, so a changed constant cannot cancel).
Clauses: panic, bytes-forward, reference-parse-accepts, reference-parse-fields,
         reference-parse-consumed.
v3.1.1 acknowledgements carrying a reason code (a library extension with no OASIS encoding) are
excluded.
"""
import time

import codec_common as cc
import vlib

PROP = "C03"


def main(tier, replay=None):
    t0 = time.time()
    if replay:
        return cc.run_replay(PROP, "C03", replay, cc.pattern_vec)
    res = cc.vec_pipeline(PROP, "C03", "MC_Codec_vec_%s.cfg" % tier, tier, cc.pattern_vec, sso_variants=True)
    cc.require_all_kinds(res["by_kind"])
    cc.require_all_cells(res["cells"])
    mc = res["mc"]
    cov = {
        "states": mc["distinct"],
        "transitions": mc["printed"],
        "traces_validated_against_impl": res["judged"],
        "samples": res["samples"],
        "exhaustive": False,
        "finite_tables_exhaustive": True,
        "evaluations": res["items"],
        "distinct_nontrivial": res["built"],
        "rule": "same vectors as C02 (MC_Codec vec, %s): every distinct abstract packet is encoded by the reference (TLA+) and by the "
                "library; both directions compared. All reason-code values of every kind, all 27 property identifiers at every "
                "allowed location, all fixed-header type/flag combinations are covered in both tiers. distinct_nontrivial = "
                "vectors built by the real builder and compared byte for byte." % tier,
        "vectors_per_kind": res["by_kind"],
        "property_cells_built": res["cells"],
        "panics_observed": res["panics"],
        "sso_feature_builds": res["sso_variants"],
        "violating_records": res["violating_records"],
        "checker_cmd": "tlc MC_Codec_vec_%s.cfg MC_Codec; codec-harness vec; MODE=C03 tlc Trace_Codec" % tier,
    }
    return cc.finish(PROP, tier, "model_checking", res, cov, [
        "agreement of Codec.tla with the OASIS documents is by transcription and review (trusted base, DESIGN section 5)",
        "the byte comparison itself is done by the harness on the expanded reference segments; TLC judges the logged flag and recomputes all length arithmetic",
        "32-bit packet identifiers are the library's extension: encoded as 4 bytes big-endian",
        "lengths strictly between lattice points are not enumerated",
    ], t0)
