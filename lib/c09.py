"""C09 - stream framing is independent of how the byte stream is chunked (DESIGN section 4, C09).

MC   : MC_Framing.tla - every stream of <= N abstract frames (valid, non-minimal Remaining Length,
       zero-length body, illegal 5-byte Remaining Length followed by further frames) x EVERY
       partition into receive buffers; the chunked machine Framing!Feed, called on (buffer, cursor)
       like Connection::recv, refines AtomicFraming (results, bytes consumed per call, nothing
       lost/duplicated/reordered, resynchronisation after Error).  Finite, complete.
S->I : the explored buffer choices (all, or a VERIF_SEED-selected sample in the quick tier) are
       replayed on a real PacketBuilder and on real Server/Client connections, next to the same stream
       fed whole frame by whole frame to a second real object; short streams additionally under all
       their partitions.
I->S : seeded random streams of ~50 library-serialised packets (Remaining Length 127/128/16383/16384,
       2 MiB in the thorough tier, invalid frames, truncated tails) with random cuts.
Judge: Trace_Framing.tla (TLC) on every recorded call: Level-A clauses of C09 + lock-step Framing ghost.
"""
import concurrent.futures
import json
import os
import re
import time

import vlib

PROP = "C09"

BASE = {"MaxFrames": "2", "Firsts": "{48, 192}", "Widths": "{1, 2, 3, 4}", "BodyLens": "{0, 1, 2, 3}",
        "ErrFirst": "{128}", "ErrLast": "{128, 255}", "Near": "1000000", "WithBody": "TRUE",
        "Sample": "1", "Salt": "0"}


def mc_configs(tier, seed):
    """(name, constants, sample modulus, conn stride, allparts limit, allparts stride)"""
    if tier != "thorough":
        return [("q2", dict(BASE, BodyLens="{0, 1, 3}", ErrLast="{128}"), 16, 4, 8, 4)]
    return [
        ("t2", dict(BASE), 1, 4, 9, 2),
        ("t3", dict(BASE, MaxFrames="3", BodyLens="{0, 2}", ErrLast="{128}"), 8, 4, 0, 1),
        ("t6", dict(BASE, Firsts="{48}", BodyLens="{0, 4, 5, 6}", ErrLast="{128}"), 1, 2, 0, 1),
        ("tbig", dict(BASE, Firsts="{48}", BodyLens="{0, 2, 127, 128, 16383, 16384}", ErrLast="{128}",
                      Near="2", WithBody="FALSE"), 1, 3, 0, 1),
    ]


def write_cfg(name, consts):
    cfgname = "MC_Framing.%s.cfg" % name
    lines = ["SPECIFICATION Spec", "CONSTANTS"] + ["  %s = %s" % kv for kv in consts.items()] + [
        "VIEW view", "INVARIANT TypeOK", "PROPERTY Refines", "ACTION_CONSTRAINT PrintEdge", "CHECK_DEADLOCK FALSE"]
    with open(os.path.join(vlib.SPEC, cfgname), "w") as f:
        f.write("\n".join(lines) + "\n")
    return cfgname


def run_mc(tier, name, consts, sample, wd, workers):
    consts = dict(consts, Sample=str(sample), Salt=str(vlib.seed() % sample))
    cfgname = write_cfg(name, consts)
    sub = os.path.join(wd, "mc_" + name)
    os.makedirs(sub, exist_ok=True)
    try:
        mc = vlib.tlc("MC_Framing", cfgname, sub, workers=workers, xmx="8g" if tier == "thorough" else "6g",
                      timeout=1100 if tier == "thorough" else 80)
    finally:
        os.remove(os.path.join(vlib.SPEC, cfgname))
    if not mc["completed"] or mc["errors"]:
        tail = "\n".join(l for l in open(mc["out"], errors="replace").read().splitlines() if not l.startswith('<<"E"'))[-3000:]
        vlib.log(tail)
        raise vlib.ToolError("MC_Framing (%s): the specification does not satisfy its own refinement: %s" % (name, mc["errors"][:2]))
    edges = os.path.join(sub, "edges.ndjson")
    total, _ = vlib.edges_to_file(mc["out"], edges)
    os.remove(mc["out"])  # large; everything needed is in edges.ndjson
    seen = set()
    lines = open(edges).read().splitlines()
    for l in lines:
        e = json.loads(l)
        seen.add((e["ph"], e["rk"]))
    need = {(p, "incomplete") for p in (0, 1, 2)} | {(0, "complete"), (1, "complete"), (2, "complete"), (0, "error"), (1, "error")}
    if need - seen:
        raise vlib.ToolError("vacuous model run %s: (phase, result) pairs never explored: %s" % (name, sorted(need - seen)))
    # contiguous blocks of the same stream stay together so that the trie shares prefixes
    lines.sort(key=lambda l: l[:l.index('"cuts"')])
    return mc, lines


# ---------------------------------------------------------------- jobs: harness run + TLC judgement

DRIFT_RE = re.compile(r'^"DRIFT (\d+) (\w+) expected=(.*) got=(.*)"$')


def job(binary, wd, name, args, xmx, timeout):
    sub = os.path.join(wd, name)
    os.makedirs(sub, exist_ok=True)
    trie = os.path.join(sub, "trie.ndjson")
    streams = os.path.join(sub, "streams.ndjson")
    hs = vlib.harness(binary, ["run"] + args + ["--out", trie, "--streams-out", streams], timeout=timeout)
    if "nodes" not in hs:
        raise vlib.ToolError("harness %s produced no summary: %s" % (name, hs))
    if hs.get("nondeterministic"):
        raise vlib.ToolError("the framing code behaved non-deterministically: %s" % hs["nondeterministic"][:1])
    viols, tres = vlib.trace_check("Trace_Framing", "Trace_Framing.cfg", trie, sub, timeout=timeout, xmx=xmx)
    drifts = []
    with open(tres["out"], errors="replace") as f:
        for line in f:
            if line.startswith('<<"BADLOG"'):
                raise vlib.ToolError("trace log rejected by Trace_Framing (%s): %s" % (name, line.strip()))
            m = DRIFT_RE.match(line.strip())
            if m:
                drifts.append((int(m.group(1)), m.group(2), m.group(3), m.group(4)))
    return {"name": name, "trie": trie, "streams": streams, "hs": hs, "viols": viols, "drifts": drifts, "tlc": tres}


# ---------------------------------------------------------------- signatures and replays

def case_of(nodes, nid):
    """stream description + the executed path up to node nid"""
    path = vlib.path_to(nodes, nid)
    new = path[1] if len(path) > 1 else None
    return new, path[2:]


def pattern(nodes, nid):
    node = nodes[nid]
    if node["op"] == "new":
        return "%s reference-run" % ("pb" if node["tg"] == "pb" else "conn")
    new, calls = case_of(nodes, nid)
    off = sum(c["pos1"] - c["pos0"] for c in calls[:-1])
    ends = new["ends"]
    k = next((i for i, e in enumerate(ends) if e > off), None)
    if k is None:
        kind, width = "none", 0
        rel = "after-stream"
    else:
        fr = new["frames"][k]
        kind, width = fr[0], len(fr[2])
        bufend = off + (node["blen"] - node["pos0"])
        rel = "short" if bufend < ends[k] else "exact" if bufend == ends[k] else "beyond"
    phase = calls[-2]["hook"][0] if len(calls) >= 2 else 0
    tgc = "pb" if node["tg"] == "pb" else "conn"
    return "%s phase=%d frame=%s width=%d buffer=%s res=%s" % (tgc, phase, kind, width, rel, node["res"])


def schedule_of(nodes, streams_path, nid):
    new, calls = case_of(nodes, nid)
    if nodes[nid]["op"] == "new":
        new, calls = nodes[nid], []
    frames = None
    with open(streams_path) as f:
        for line in f:
            if ('"node":%d,' % new["id"]) in line or ('"node":%d}' % new["id"]) in line:
                d = json.loads(line)
                if d["node"] == new["id"]:
                    frames = d["frames"]
                    break
    cuts = []
    for c in calls:
        if len(cuts) < c["ci"]:
            cuts.append(c["blen"])
    if not calls:
        cuts = [e - (new["ends"][i - 1] if i else 0) for i, e in enumerate(new["ends"])]
    return {"tg": new["tg"], "frames": frames, "cuts": cuts}


def collect(results):
    """VIOL lines of all jobs -> signature groups; replay material is read lazily from the job's trie"""
    groups = {}
    cache = {}

    def nodes_of(r):
        if r["name"] not in cache:
            cache[r["name"]] = vlib.load_trie(r["trie"])
        return cache[r["name"]]

    for r in results:
        if not r["viols"]:
            continue
        nodes = nodes_of(r)
        # report the first violating call of a path only: after it the object under test is in an
        # unspecified state and everything downstream is a consequence, not a new finding
        bad = {nid for nid, _ in r["viols"]}
        below = {}
        for nid in sorted(bad):
            p = nodes[nid]["parent"]
            chain = []
            while p != 0 and p not in below and p not in bad:
                chain.append(p)
                p = nodes[p]["parent"]
            tainted = p != 0 and (p in bad or below.get(p, False))
            for q in chain:
                below[q] = tainted
            below[nid] = tainted
        r["suppressed_downstream"] = sum(1 for nid in bad if below[nid])
        for nid, clauses in r["viols"]:
            if below[nid]:
                continue
            pat = pattern(nodes, nid)
            depth = len(vlib.path_to(nodes, nid))
            for c in clauses:
                sig = "%s|%s|%s" % (PROP, c, pat)
                g = groups.setdefault(sig, {"clause": c, "pattern": pat, "count": 0, "example": (r, nid), "depth": 10 ** 9})
                g["count"] += 1
                if depth < g["depth"]:
                    g["depth"], g["example"] = depth, (r, nid)

    def make_replay(ex):
        r, nid = ex
        nodes = nodes_of(r)
        node = nodes[nid]
        keys = ("op", "tg", "ci", "blen", "pos0", "pos1", "hd", "res", "fr", "hook", "ev", "nerr", "npkt", "panic", "msg", "last", "stall")
        return {"harness": "framing", "schedule": schedule_of(nodes, r["streams"], nid),
                "failing_call": {k: node.get(k) for k in keys}}

    return groups, make_replay, nodes_of


def report_drift(results, nodes_of, limit=5):
    n = sum(len(r["drifts"]) for r in results)
    shown = 0
    for r in results:
        for nid, field, exp, got in r["drifts"]:
            if shown >= limit:
                break
            print("DRIFT field=%s expected=%s got=%s (job %s node %d)" % (field, exp, got, r["name"], nid))
            shown += 1
    if n > shown:
        print("DRIFT ... %d more" % (n - shown))
    return n


def sample_cases(trie_path, limit=3):
    """a few executed (stream, partition) cases, written out"""
    nodes = []
    with open(trie_path) as f:
        for i, line in enumerate(f):
            if i >= 4000:
                break
            nodes.append(json.loads(line))
    out = []
    for nd in nodes:
        if nd["op"] == "call" and nd["last"] and len(out) < limit:
            try:
                new, calls = case_of(nodes, nd["id"])
            except IndexError:
                continue
            out.append({"target": new["tg"],
                        "frames": [[f[0], f[1], f[2], f[3]] for f in new["frames"][:8]],
                        "calls": [{"buffer": c["ci"], "len": c["blen"], "cursor": [c["pos0"], c["pos1"]], "res": c["res"],
                                   "hook": c["hook"], "events": len(c["ev"])} for c in calls[:12]]})
    return out


def add_stats(tot, hs):
    for k, v in hs.items():
        if isinstance(v, (int, float)):
            tot[k] = tot.get(k, 0) + v
        elif isinstance(v, list) and v and all(isinstance(x, (int, float)) for x in v):
            old = tot.get(k, [0] * len(v))
            tot[k] = [a + b for a, b in zip(old, v)]
        elif isinstance(v, dict):
            d = tot.setdefault(k, {})
            for kk, vv in v.items():
                d[kk] = d.get(kk, 0) + vv


def non_vacuity(tot):
    missing = []
    for kind in ("complete", "incomplete", "error", "na"):
        if not tot.get("res", {}).get(kind):
            missing.append("result kind %s" % kind)
    for i, n in enumerate(tot.get("entry_phase", [0, 0, 0])):
        if not n:
            missing.append("call entered in phase %d" % i)
    for i, n in enumerate(tot.get("widths_completed", [0, 0, 0, 0])):
        if not n:
            missing.append("frame with Remaining Length width %d completed" % (i + 1))
    for key, what in (("err5_seen", "5-byte Remaining Length error path"), ("resync_after_err5", "frame completed right after a 5-byte error"),
                      ("nonminimal_completed", "non-minimal Remaining Length"), ("zero_len_completed", "zero-length body"),
                      ("empty_buffers", "empty receive buffer"), ("multi_frame_buffers", "several frames in one buffer"),
                      ("midframe_nodes", "buffer starting inside a frame")):
        if not tot.get(key):
            missing.append(what)
    if missing:
        raise vlib.ToolError("vacuous run, never exercised: %s" % "; ".join(missing))


def main(tier, replay=None):
    t0 = time.time()
    wd = vlib.workdir(PROP)
    binary = vlib.build("framing-harness")

    if replay:
        rep = json.load(open(replay))
        sched = os.path.join(wd, "schedule.ndjson")
        with open(sched, "w") as f:
            f.write(json.dumps(rep["schedule"]) + "\n")
        r = job(binary, wd, "replay", ["--schedule", sched], "4g", 600)
        groups, make_replay, nodes_of = collect([r])
        code, nv, nk = vlib.verdict(PROP, groups, make_replay)
        report_drift([r], nodes_of)
        print("replay: %d nodes, %d violating nodes" % (r["hs"]["nodes"], len(r["viols"])))
        return code

    thorough = tier == "thorough"
    seed = vlib.seed()
    par = 10 if thorough else 6
    xmx = "5g" if thorough else "3g"
    jt = 1100 if thorough else 80

    # ---- specification side: model check, collect the buffer choices to replay
    mcs = []
    specs = []
    per_job = 30000 if thorough else 4000
    for name, consts, sample, stride, allparts, apstride in mc_configs(tier, seed):
        mc, lines = run_mc(tier, name, consts, sample, wd, 16 if thorough else 8)
        mcs.append((name, mc, len(lines)))
        for i in range(0, len(lines), per_job):
            part = os.path.join(wd, "mc_" + name, "edges_%03d.ndjson" % (i // per_job))
            with open(part, "w") as f:
                f.write("\n".join(lines[i:i + per_job]) + "\n")
            specs.append(("%s_%03d" % (name, i // per_job),
                          ["--edges", part, "--conn-stride", str(stride), "--allparts", str(allparts), "--allparts-stride", str(apstride)]))
    # ---- implementation side: seeded random streams of real packets
    nrand, per = (840, 60) if thorough else (36, 12)
    for i in range(0, nrand, per):
        a = ["--seed", str(seed * 1000 + i // per), "--streams", str(per), "--parts", "2", "--packets", "50"]
        if thorough:
            a.append("--big")
        specs.append(("rand_%03d" % (i // per), a))

    results = []
    with concurrent.futures.ThreadPoolExecutor(max_workers=par) as ex:
        futs = [ex.submit(job, binary, wd, name, args, xmx, jt) for name, args in specs]
        for fu in futs:
            results.append(fu.result())   # re-raises ToolError

    tot = {}
    for r in results:
        add_stats(tot, r["hs"])
    non_vacuity(tot)

    groups, make_replay, nodes_of = collect(results)
    code, nv, nk = vlib.verdict(PROP, groups, make_replay)
    ndrift = report_drift(results, nodes_of)

    samples = sample_cases(results[0]["trie"], 2) + sample_cases(results[-1]["trie"], 1)
    vlib.write_evidence(PROP, tier, "model_checking", {
        "states": sum(mc["distinct"] for _, mc, _ in mcs),
        "transitions": sum(mc["generated"] for _, mc, _ in mcs),
        "traces_validated_against_impl": tot["leaves"],
        "samples": samples,
        "evaluations": tot["calls"] + tot["ref_calls"],
        "distinct_nontrivial": tot["midframe_nodes"],
        "rule": "MC_Framing explores every stream of the configured catalogue and every partition into receive buffers "
                "(graph of (stream, cursor, buffer end, machine state); finite, explored completely, action property on every "
                "transition). The printed buffer choices (%s) are replayed on a real PacketBuilder and real connections, short "
                "streams under all partitions, plus seeded random streams of ~50 real packets. traces_validated = trie leaves "
                "= distinct (target, stream, partition) cases executed and judged by TLC; distinct_nontrivial = trie nodes "
                "(distinct call prefixes) whose receive buffer started inside a frame." % (
                    "all of them for the 2-frame catalogues, 1/8 for the 3-frame one" if thorough else "a 1/16 sample chosen by VERIF_SEED"),
        "exhaustive": False,
        "model_runs": [{"config": n, "distinct": mc["distinct"], "generated": mc["generated"], "replayed_edges": k,
                        "wall_s": round(mc["wall"], 1)} for n, mc, k in mcs],
        "streams_executed": tot["streams"],
        "cases_executed": tot["cases"],
        "real_calls": tot["calls"],
        "reference_calls": tot["ref_calls"],
        "trie_nodes": tot["nodes"],
        "result_kinds": tot["res"],
        "calls_entered_in_phase": tot["entry_phase"],
        "frames_completed_by_width": tot["widths_completed"],
        "nonminimal_completed": tot["nonminimal_completed"],
        "zero_length_completed": tot["zero_len_completed"],
        "five_byte_errors": tot["err5_seen"],
        "resynchronised_after_five_byte_error": tot["resync_after_err5"],
        "empty_buffers": tot["empty_buffers"],
        "multi_frame_buffers": tot["multi_frame_buffers"],
        "largest_frame_bytes": max(r["hs"]["max_frame"] for r in results),
        "library_panics": tot["panics"],
        "generator_panics": tot.get("gen_panics", 0),
        "violating_nodes": sum(len(r["viols"]) for r in results),
        "disagreements_checked": ndrift,
        "known_finding_signatures": nk,
        "checker_cmd": "tlc MC_Framing (%s); framing-harness run --edges .. / --seed %d.. ; tlc Trace_Framing (%d jobs)" % (
            ", ".join(n for n, _, _ in mcs), seed * 1000, len(results)),
        "repo_head": vlib.repo_head(),
    }, [
        "the stream description (frame boundaries) given to TLC comes from the harness that concatenated the frames; TLC checks its arithmetic consistency and, independently, runs the Framing ghost on the raw logged bytes at the cursor",
        "body contents are compared through length + 64-bit FNV digests (bytes themselves up to 8 bytes)",
        "events are compared real-vs-real through the library's own Serialize output plus a hash of the packet's wire bytes",
        "the application reacts deterministically to events between recv calls (CONNACK after CONNECT, a few outbound exchanges after the handshake) identically in the chunked and the frame-by-frame run",
        "hook state (PacketBuilder::verif_state) is compared with the ghost for DRIFT only",
    ], time.time() - t0, nv)
    if tot.get("gen_panics"):
        vlib.log("[c09] note: %d streams skipped because a library packet builder/serialiser panicked while generating them (not a C09 matter)" % tot["gen_panics"])
    # tries of clean jobs are large and reproducible from the seed: drop them
    for r in results:
        if not r["viols"]:
            for pth in (r["trie"], r["tlc"]["out"]):
                try:
                    os.remove(pth)
                except OSError:
                    pass
    vlib.log("[c09] %s: %d MC states, %d transitions, %d cases, %d trie nodes, %d drift, %.1fs" % (
        tier, sum(mc["distinct"] for _, mc, _ in mcs), sum(mc["generated"] for _, mc, _ in mcs), tot["cases"], tot["nodes"], ndrift, time.time() - t0))
    return code
