"""C06 - see DESIGN.md section 4."""
import endpoint

PROP = "C06"
QUICK = ["qos_c311", "qos_c50_rm", "qos_offline", "qos_server"]
THOROUGH = ["qos_c311", "qos_c311_auto", "qos_c50", "qos_c50_rm", "qos_offline", "qos_server"]


def nontrivial(n):
    return n['call']['pkt']['kind'] in ('publish','pubrel','puback','pubrec','pubcomp') or (n['call']['pkt']['kind']=='connack' and n['call']['pkt']['sp'])


def main(tier, replay=None):
    return endpoint.run(PROP, tier, QUICK, THOROUGH, nontrivial, replay=replay,
                        extra_rule="a QoS>0 PUBLISH/PUBREL is sent, acknowledged, erased or re-sent")
