"""Which slices of MC_Endpoint decide which connection-level property, and what counts as a
non-trivial case (the property's antecedent fired at a trie node)."""
import endpoint


def _kind(n):
    return n["call"]["pkt"]["kind"]


def _op(n):
    return n["call"]["op"]


TABLE = {
    "C05": dict(
        quick=["hostile", "rgate", "ids_edge", "reuse_s", "early_acks", "opt_flips", "in_qos2"], thorough=["hostile", "rgate", "ids_edge", "in_rm", "mps", "autodetect", "reuse_s", "reuse_c", "early_acks", "opt_flips", "in_qos2"],
        rule="a peer frame (valid, boundary-valued, malformed or garbage) is handed to recv",
        nontrivial=lambda n: _op(n) in ("recv", "garbage"), profile="hostile"),
    "C06": dict(
        quick=["qos_c311", "qos_c50_rm", "qos_offline", "qos_server", "qos_order", "mps_resume", "opt_flips", "erase_reuse"],
        thorough=["qos_c311", "qos_c311_auto", "qos_c50", "qos_c50_rm", "qos_offline", "qos_server", "mps_resume", "qos_order", "opt_flips", "erase_reuse"],
        rule="a QoS>0 PUBLISH/PUBREL is sent, acknowledged, erased or re-sent",
        nontrivial=lambda n: _kind(n) in ("publish", "pubrel", "puback", "pubrec", "pubcomp") or (_kind(n) == "connack" and n["call"]["pkt"]["sp"]),
        profile="qos"),
    "C07": dict(
        quick=["in_qos2", "in_qos2_alias", "in_qos2_disc", "in_qos2_late", "in_qos2_badconnect"], thorough=["in_qos2", "in_qos2_alias", "in_qos2_disc", "in_qos2_late", "in_rm", "crash_in", "in_qos2_badconnect"],
        rule="a QoS 2 PUBLISH or a PUBREL is received",
        nontrivial=lambda n: _op(n) == "recv" and ((_kind(n) == "publish" and n["call"]["pkt"]["qos"] == 2) or _kind(n) == "pubrel"),
        profile="inbound"),
    "C08": dict(
        quick=["qos_c311", "qos_offline", "gate", "ids_edge", "subs", "erase_reuse", "free_id", "mps_resume"],
        thorough=["qos_c311", "qos_c311_auto", "qos_c50", "qos_c50_rm", "qos_offline", "qos_server", "gate", "reuse_c", "ids_edge", "subs", "erase_reuse", "free_id", "mps_resume"],
        rule="an identifier is acquired, registered or released",
        nontrivial=lambda n: _op(n) in ("acquire", "register", "release") or any(e["ev"] == "released" for e in n["out"]),
        profile="ids"),
    "C10": dict(
        quick=["reuse_c", "reuse_s", "reuse_sess", "timers_any"], thorough=["reuse_c", "reuse_c2", "reuse_s", "reuse_sess", "timers_c", "timers_any"],
        rule="a reused object runs next to a fresh shadow object after a close",
        nontrivial=lambda n: n.get("shadow") == "fresh", profile="reuse"),
    "C11": dict(
        quick=["gate", "gate_x", "in_qos2_disc", "opt_flips", "gate_late"], thorough=["gate", "gate_x", "in_qos2_disc", "qos_offline", "opt_flips", "gate_late"],
        rule="send is called (one cell of role x version x state x kind)",
        nontrivial=lambda n: _op(n) == "send", profile="gate"),
    "C12": dict(
        quick=["qos_c50_rm", "qos_server", "in_rm", "rm_alias", "in_rm_mps", "early_acks", "mps_resume", "erase_rm"], thorough=["qos_c50_rm", "qos_c50", "qos_server", "in_rm", "crash_out", "rm_alias", "in_rm_mps", "mps_resume", "erase_rm"],
        rule="a Receive Maximum is in force (vacancy reported)",
        nontrivial=lambda n: n["obs"]["vacancy"] >= 0 or (_op(n) == "recv" and _kind(n) == "publish"), profile="qos"),
    "C13": dict(
        quick=["alias_send", "alias_auto", "alias_srv", "alias_dup", "alias_lru", "alias_early"], thorough=["alias_send", "alias_auto", "alias_srv", "in_qos2_alias", "mps", "alias_dup", "alias_lru", "alias_early"],
        rule="a PUBLISH is sent or received on a v5.0 connection with topic aliases in play", quick_edges=45000,
        nontrivial=lambda n: _kind(n) == "publish" and (n["call"]["pkt"]["alias"] != 0 or any(e["ev"] == "send" and e["pkt"]["alias"] for e in n["out"])),
        profile="alias"),
    "C14": dict(
        quick=["mps", "mps_resume", "alias_auto", "alias_mps"], thorough=["mps", "mps_resume", "alias_auto", "hostile", "alias_mps"],
        rule="a Maximum Packet Size is in force and a packet is sent or received",
        nontrivial=lambda n: (n["dig"] or {}).get("mpsSend", 268435461) < 268435461 or (n["dig"] or {}).get("mpsRecv", 268435461) < 268435461,
        profile="mps"),
    "C15": dict(
        quick=["timers_c", "timers_s", "timers_s_all", "timers_any"], thorough=["timers_c", "timers_s", "timers_s_all", "mps", "autodetect", "reuse_c2", "timers_any"],
        rule="a timer event is returned or a timer fires",
        nontrivial=lambda n: _op(n) == "fire" or any(e["ev"].startswith("timer") for e in n["out"]), profile="timers"),
    "C16": dict(
        quick=["crash_out", "crash_in", "crash_order", "restore_bad"], thorough=["crash_out", "crash_in", "crash_order", "restore_bad"],
        rule="a restored copy runs next to the original after a crash point",
        nontrivial=lambda n: n.get("shadow") == "restored" or _op(n) == "crash", profile="crash"),
    "C17": dict(
        quick=["rgate", "autodetect", "rogue_stored"], thorough=["rgate", "autodetect", "hostile", "rogue_stored"],
        rule="a frame is received (one cell of role x version x state x type nibble) or an undetermined server runs next to a fixed-version one",
        nontrivial=lambda n: _op(n) == "recv", profile="hostile"),
    "C19": dict(
        quick=["timers_c", "timers_s", "hostile", "refuse_stored", "rogue_stored", "gate_late"], thorough=["timers_c", "timers_s", "hostile", "refuse_stored", "mps", "qos_c50", "reuse_s", "rgate", "rogue_stored", "gate_late"],
        rule="the returned event list contains a close request or a final packet",
        nontrivial=lambda n: any(e["ev"] == "close" for e in n["out"]), profile="timers"),
}


def main(prop, tier, replay=None):
    t = TABLE[prop]
    return endpoint.run(prop, tier, t["quick"], t["thorough"], t["nontrivial"], drive_profile=t["profile"], replay=replay,
                        extra_rule=t["rule"], quick_edges=t.get("quick_edges", 30000))
