"""Shared machinery of the /verif checks: harness build, TLC invocation, trie handling,
known-findings matching, verdict, evidence.

Exit codes (DESIGN 2.4): 0 property held on everything explored (KNOWN-FINDING / DRIFT lines allowed),
1 unlisted violation (with VIOLATION line + replay file), 2 tool error / timeout.
"""
import fnmatch
import hashlib
import json
import os
import re
import shutil
import subprocess
import sys
import time

ROOT = os.path.dirname(os.path.dirname(os.path.abspath(__file__)))
SPEC = os.path.join(ROOT, "spec")
WORK = os.path.join(ROOT, "work")
HARNESS = os.path.join(ROOT, "harness")
EVIDENCE = os.path.join(ROOT, "evidence")
REPLAYS = os.path.join(ROOT, "replays")
REPO = os.environ.get("VERIF_REPO", "/repo")
TLA_CP = "/opt/veriftools/tla/tla2tools.jar:/opt/veriftools/tla/CommunityModules-deps.jar"


class ToolError(Exception):
    pass


def log(*a):
    print(*a, file=sys.stderr, flush=True)


def seed():
    try:
        return int(os.environ.get("VERIF_SEED", "1"))
    except ValueError:
        return 1


def workdir(name):
    d = os.path.join(WORK, name)
    shutil.rmtree(d, ignore_errors=True)
    os.makedirs(d, exist_ok=True)
    return d


def run(cmd, timeout, cwd=None, env=None, stdout=None):
    e = dict(os.environ)
    if env:
        e.update(env)
    try:
        p = subprocess.run(cmd, cwd=cwd, env=e, timeout=timeout, stdout=stdout or subprocess.PIPE,
                           stderr=subprocess.STDOUT if stdout else subprocess.PIPE, text=True)
    except subprocess.TimeoutExpired:
        raise ToolError("timeout after %ss: %s" % (timeout, " ".join(cmd[:6])))
    return p


# ---------------------------------------------------------------- harness build

def build(pkg):
    """cargo build of one harness crate against /repo's current working tree, hooks on."""
    lock_src = os.path.join(REPO, "Cargo.lock")
    if os.path.exists(lock_src):
        shutil.copyfile(lock_src, os.path.join(HARNESS, "Cargo.lock"))
    env = {"CARGO_NET_OFFLINE": "true"}
    t0 = time.time()
    p = run(["cargo", "build", "--offline", "-q", "-p", pkg], timeout=1500, cwd=HARNESS, env=env)
    if p.returncode != 0:
        sys.stderr.write(p.stderr[-6000:] if p.stderr else "")
        raise ToolError("cargo build of %s failed (hook / API drift or compile error in /repo)" % pkg)
    log("[build] %s in %.1fs" % (pkg, time.time() - t0))
    return os.path.join(HARNESS, "target", "debug", pkg)


def harness(binary, args, timeout=900):
    p = run([binary] + args, timeout=timeout)
    if p.returncode != 0:
        sys.stderr.write((p.stdout or "")[-3000:] + (p.stderr or "")[-3000:])
        raise ToolError("harness %s exited %s" % (os.path.basename(binary), p.returncode))
    last = [l for l in p.stdout.strip().splitlines() if l.strip()]
    try:
        return json.loads(last[-1]) if last else {}
    except ValueError:
        return {"raw": p.stdout[-500:]}


# ---------------------------------------------------------------- TLC

STATS_RE = re.compile(r"^(\d+) states generated, (\d+) distinct states found", re.M)
DEPTH_RE = re.compile(r"The depth of the complete state graph search is (\d+)")


def tlc(module, cfg, wd, workers=8, xmx="6g", timeout=900, env=None, simulate=None, depth=None,
        deque=False, xss=None, extra=None):
    """Run TLC on spec/<module>.tla with spec/<cfg>; output to <wd>/<module>.out. Returns dict."""
    out_path = os.path.join(wd, "%s.%s.out" % (module, os.path.splitext(os.path.basename(cfg))[0]))
    md = os.path.join(wd, "md_%s_%s" % (module, os.path.splitext(os.path.basename(cfg))[0]))
    jopts = []
    if xss:
        jopts.append("-Xss%s" % xss)
    if deque:
        jopts.append("-Dtlc2.tool.queue.IStateQueue=StateDeque")
    cmd = ["java", "-XX:+UseParallelGC", "-Xmx%s" % xmx] + jopts + ["-cp", TLA_CP, "tlc2.TLC",
           "-workers", str(workers), "-metadir", md, "-cleanup", "-noGenerateSpecTE",
           "-config", os.path.join(SPEC, cfg)]
    if simulate:
        cmd += ["-simulate", simulate]
        if depth:
            cmd += ["-depth", str(depth)]
    if extra:
        cmd += extra
    cmd.append(os.path.join(SPEC, module + ".tla"))
    t0 = time.time()
    with open(out_path, "w") as f:
        p = run(cmd, timeout=timeout, cwd=SPEC, env=env, stdout=f)
    shutil.rmtree(md, ignore_errors=True)
    txt = open(out_path, errors="replace").read()
    res = {"out": out_path, "rc": p.returncode, "wall": time.time() - t0, "cmd": " ".join(cmd[5:]),
           "generated": 0, "distinct": 0, "depth": 0}
    m = None
    for m in STATS_RE.finditer(txt):
        pass
    if m:
        res["generated"], res["distinct"] = int(m.group(1)), int(m.group(2))
    m = DEPTH_RE.search(txt)
    if m:
        res["depth"] = int(m.group(1))
    errs = [l for l in txt.splitlines() if l.startswith("Error:")]
    res["errors"] = errs
    res["completed"] = "Model checking completed. No error has been found." in txt
    log("[tlc] %s/%s: %d generated, %d distinct, %.1fs, rc=%d" % (module, cfg, res["generated"], res["distinct"], res["wall"], p.returncode))
    return res


def tlc_many(module, cfgs, wd, parallel=4, **kw):
    """Run several configurations of one module concurrently (each its own JVM, metadir and output file);
    returns {cfg: result} in the order given."""
    from concurrent.futures import ThreadPoolExecutor
    with ThreadPoolExecutor(max_workers=parallel) as ex:
        futs = [(c, ex.submit(tlc, module, c, wd, **kw)) for c in cfgs]
        return {c: f.result() for c, f in futs}


def tlc_must_pass(res, what):
    """The specification's own model check must succeed; otherwise it is a tool error (exit 2)."""
    if simulate_ok(res):
        return
    if not res["completed"] or res["errors"]:
        tail = "\n".join(open(res["out"], errors="replace").read().splitlines()[-60:])
        sys.stderr.write(tail + "\n")
        raise ToolError("TLC failed on %s: %s" % (what, res["errors"][:3]))


def simulate_ok(res):
    return False


def printed(out_path, tag):
    """Yield the payloads of PrintT(<<tag, payload>>) lines; string payloads are unescaped."""
    pre = '<<"%s", ' % tag
    with open(out_path, errors="replace") as f:
        for line in f:
            if line.startswith(pre):
                s = line.rstrip("\n")
                if not s.endswith(">>"):
                    continue
                body = s[len(pre):-2]
                if body.startswith('"'):
                    try:
                        yield json.loads(body)
                    except ValueError:
                        yield body
                else:
                    yield body


class Graph:
    """The explored state graph, rebuilt from the printed edges: every edge line carries its whole history and the
    target state as a string; the source of an edge is the target of the edge that printed its history."""
    def __init__(self):
        self.adj = {}        # state id -> [(element text, target state id)]
        self.inits = []      # [(schedule text of the set-up calls, state id)]
        self.edges = []      # [(schedule inner text, target state id)] one per printed edge

    def walks(self, n, rng, extra=8, from_init=40):
        """n schedules: alternately a random walk from an initial state (up to from_init steps) and the history of a
        random printed edge continued by `extra` random steps.  Every walk is a behaviour of the model."""
        out = []
        if not self.edges:
            return out
        for i in range(n):
            if i % 2 == 0 and self.inits:
                inner, cur = rng.choice(self.inits)
                steps = from_init
            else:
                inner, cur = rng.choice(self.edges)
                steps = extra
            for _ in range(steps):
                outs = self.adj.get(cur)
                if not outs:
                    break
                el, cur = rng.choice(outs)
                inner = inner + "," + el if inner else el
            out.append('{"hist":[' + inner + ']}')
        return out


    def _parsed(self, st):
        c = self.__dict__.setdefault("_cache", {})
        if st not in c:
            c[st] = [(self._norm(json.loads(el)), nxt, el) for el, nxt in self.adj.get(st, [])]
        return c[st]

    @staticmethod
    def _norm(c):
        # the harness writes the number of bytes consumed into the record of a recv call
        if c.get("op") == "recv" and c.get("val"):
            c = dict(c)
            c["val"] = 0
        return c

    def locate(self, calls):
        """The model state reached by a recorded history (list of parsed call records), or None if the history is not
        a path of the explored graph (variants on other instantiations, random histories).  Returns (texts, state)."""
        for inner, st in self.inits:
            try:
                setup = json.loads("[" + inner + "]")
            except ValueError:
                continue
            calls = [self._norm(c) for c in calls]
            if calls[:len(setup)] != setup:
                continue
            texts, cur, ok = [inner] if inner else [], st, True
            for c in calls[len(setup):]:
                for obj, nxt, el in self._parsed(cur):
                    if obj == c:
                        texts.append(el)
                        cur = nxt
                        break
                else:
                    ok = False
                    break
            if ok:
                return texts, cur
        return None

    def neighbourhood(self, texts, st, depth, cap, rng):
        """Every continuation of the history `texts` (ending in model state st) by up to `depth` model steps - all of
        them if there are at most `cap`, otherwise all shorter ones and a seeded sample of the longest."""
        level = [([], st)]
        out = []
        for d in range(depth):
            nxt = []
            for els, cur in level:
                for el, t in self.adj.get(cur, []):
                    nxt.append((els + [el], t))
            if len(out) + len(nxt) > cap:
                nxt = rng.sample(nxt, max(0, cap - len(out)))
                out += nxt
                break
            out += nxt
            level = nxt
        # only maximal ones need to run (prefixes are replayed on the way)
        keys = set()
        for els, _ in out:
            for i in range(1, len(els)):
                keys.add(tuple(els[:i]))
        return ['{"hist":[' + ",".join(texts + els) + ']}' for els, _ in out if tuple(els) not in keys]


def maximal_schedules(out_path, tag="E", graph=None):
    """All printed transitions of a TLC run -> (number printed, maximal schedules, parent map).

    Every printed edge is a whole schedule (the first path TLC found to the edge's source state plus the
    edge), and the printed set is prefix-closed, so a schedule that is a proper prefix of another printed
    schedule is replayed anyway when the longer one is: only the maximal ones need to be executed.
    graph: a Graph to be filled from the "to" field of the edge lines (the target state as a string)."""
    raw = list(printed(out_path, tag))
    total = len(raw)
    parent = {}
    if not raw:
        return 0, [], parent
    lines, targets = [], []
    for l in raw:
        i = l.rfind('],"to":"')
        if i >= 0:
            lines.append(l[:i + 1] + "}")
            targets.append(l[i + 8:-2])
        else:
            lines.append(l)
            targets.append(None)
    del raw
    # raw-text keys: ToJson is deterministic, so the parent schedule's line is this line minus its last
    # element; elements are recognised by their first two field names (no nested record starts with both)
    m0 = re.match(r'\{"hist":\[\{"([A-Za-z]+)":[^,{\[]*,"([A-Za-z]+)":', lines[0])
    if not m0:
        raise ToolError("cannot recognise the schedule elements of %s" % out_path)
    marker = re.compile(r'\{"%s":[^,{\[]*,"%s":' % (m0.group(1), m0.group(2)))
    last_el = {}
    for l in lines:
        i = -1
        for mm in marker.finditer(l):
            i = mm.start()
        if i < 0:
            raise ToolError("schedule line without elements in %s" % out_path)
        parent[l] = (l[:i - 1] if l[i - 1] == "," else l[:i]) + "]}"
        if graph is not None:
            last_el[l] = l[i:-2]
    inner = set(parent.values())
    if graph is not None and targets[0] is not None:
        ids = {}
        state_of = {}
        for l, t in zip(lines, targets):
            state_of[l] = ids.setdefault(t, len(ids))
        for l in lines:
            par = parent[l]
            if par in state_of:
                src = state_of[par]
            else:                       # the history is the set-up of an initial state
                src = ids.setdefault("init:" + par, len(ids))
                if src not in graph.adj:
                    graph.inits.append((par[len('{"hist":['):-2], src))
            graph.adj.setdefault(src, []).append((last_el[l], state_of[l]))
            graph.edges.append((l[len('{"hist":['):-2], state_of[l]))
    return total, [l for l in lines if l not in inner], parent


def write_schedules(lines, parent, dest, limit=None, rng_seed=None):
    """Write (a seeded sample of) the maximal schedules; returns (schedules written, printed transitions covered)."""
    if limit and len(lines) > limit:
        import random
        r = random.Random(rng_seed if rng_seed is not None else 1)
        lines = r.sample(lines, limit)
    seen = set()
    for l in lines:
        k = l
        while k in parent and k not in seen:
            seen.add(k)
            k = parent[k]
    with open(dest, "w") as f:
        for l in lines:
            f.write(l + "\n")
    return len(lines), len(seen)


def split_schedules(path, chunk=8000):
    """Split a schedule file into pieces of at most `chunk` lines (each piece becomes its own harness run and its own
    trace-validation run: TLC's JSON deserialisation of one huge trie is what does not scale). Returns the piece paths."""
    lines = open(path).readlines()
    if len(lines) <= chunk:
        return [path]
    out = []
    for k in range(0, len(lines), chunk):
        q = "%s.%d" % (path, k // chunk)
        with open(q, "w") as f:
            f.writelines(lines[k:k + chunk])
        out.append(q)
    os.remove(path)
    return out


def water_fill(sizes, budget):
    """Shares of a replay budget: every slice gets an equal share, what a small slice does not need goes to the
    larger ones (so small slices are always replayed completely)."""
    share = {k: 0 for k in sizes}
    left = dict(sizes)
    while budget > 0 and left:
        q = max(1, budget // len(left))
        for k in sorted(left, key=lambda x: left[x]):
            give = min(q, left[k], budget)
            share[k] += give
            left[k] -= give
            budget -= give
        left = {k: v for k, v in left.items() if v > 0}
    return share


def edges_to_file(out_path, dest, tag="E", limit=None, rng_seed=None, maximal=False):
    """Extract printed JSON edges into an NDJSON file; optional deterministic sampling (see maximal_schedules)."""
    if maximal:
        total, lines, parent = maximal_schedules(out_path, tag)
        n, covered = write_schedules(lines, parent, dest, limit, rng_seed)
        edges_to_file.covered = covered
        return total, n
    lines = list(printed(out_path, tag))
    total = len(lines)
    if limit and total > limit:
        import random
        r = random.Random(rng_seed if rng_seed is not None else 1)
        lines = r.sample(lines, limit)
    edges_to_file.covered = len(lines)
    with open(dest, "w") as f:
        for l in lines:
            f.write(l + "\n")
    return total, len(lines)


VIOL_RE = re.compile(r'^<<"VIOL", (\d+), \{(.*)\}>>$')


def tagged(out_path, tag):
    """(node, [clauses]) pairs printed as PrintT(<<tag, ToJson([n |-> .., c |-> ..])>>) - one JSON string per
    line, because TLC wraps long tuples/sets over several lines but never a string."""
    res = []
    for payload in printed(out_path, tag):
        try:
            d = json.loads(payload)
        except (ValueError, TypeError):
            continue      # not the JSON form
        res.append((int(d["n"]), sorted(d["c"])))
    return res


def trace_check(module, cfg, trie_path, wd, timeout=900, env=None, xmx="8g"):
    """Run a Trace_* specification over an NDJSON trie. Returns (viols, tlc_result) where viols is a
    list of (node_id, [clause,...])."""
    e = {"TRIE": trie_path}
    if env:
        e.update(env)
    res = tlc(module, cfg, wd, workers=1, xmx=xmx, timeout=timeout, env=e, xss="1g")
    txt = open(res["out"], errors="replace").read()
    if not res["completed"]:
        sys.stderr.write("\n".join(txt.splitlines()[-60:]) + "\n")
        raise ToolError("trace validation %s did not complete" % module)
    if '<<"UNVISITED"' in txt:
        raise ToolError("trace validation %s did not visit every trie node" % module)
    viols = []
    for line in txt.splitlines():          # short form  <<"VIOL", node, {"clause"}>>  (one clause per line)
        m = VIOL_RE.match(line.strip())
        if m:
            viols.append((int(m.group(1)), [c.strip().strip('"') for c in m.group(2).split(",") if c.strip()]))
    if not viols:                          # JSON form   <<"VIOL", "{\"n\":..,\"c\":[..]}">>
        viols = [(n, c) for n, c in tagged(res["out"], "VIOL") ]
    return viols, res


# ---------------------------------------------------------------- trie

def load_trie(path):
    nodes = []
    with open(path) as f:
        for line in f:
            if line.strip():
                nodes.append(json.loads(line))
    return nodes


def path_to(nodes, nid):
    p = []
    while True:
        p.append(nodes[nid])
        if nid == 0:
            break
        nid = nodes[nid]["parent"]
    p.reverse()
    return p


# ---------------------------------------------------------------- findings, verdict, evidence

def known_findings():
    """All committed known_findings*.json files under /verif (never written at run time)."""
    import glob
    out = []
    for p in sorted(glob.glob(os.path.join(ROOT, "known_findings*.json"))):
        out.extend(json.load(open(p)).get("findings", []))
    return out


def match_known(prop, clause, pattern):
    for k in known_findings():
        if k.get("status") != "known":
            continue  # "fixed" entries suppress nothing
        if k.get("property") != prop:
            continue
        if not fnmatch.fnmatchcase(clause, k.get("clause", "*")):
            continue
        if not fnmatch.fnmatchcase(pattern, k.get("pattern", "*")):
            continue
        return k
    return None


def verdict(prop, groups, make_replay):
    """groups: dict signature -> dict(clause, pattern, count, example) ; make_replay(example) -> dict.
    Prints KNOWN-FINDING / VIOLATION lines. Returns (exit_code, n_violations, n_known)."""
    os.makedirs(os.path.join(REPLAYS, prop), exist_ok=True)
    nviol = 0
    nknown = 0
    seen_known = set()
    for sig in sorted(groups):
        g = groups[sig]
        k = match_known(prop, g["clause"], g["pattern"])
        if k is not None:
            nknown += 1
            kid = (k.get("clause"), k.get("pattern"))
            if kid not in seen_known:
                seen_known.add(kid)
                print("KNOWN-FINDING: property=%s %s [clause=%s pattern=%s]" % (prop, k.get("what", ""), k.get("clause"), k.get("pattern")))
            continue
        nviol += 1
        rep = make_replay(g["example"])
        rep.update({"property": prop, "clause": g["clause"], "pattern": g["pattern"], "occurrences": g["count"]})
        h = hashlib.sha1(sig.encode()).hexdigest()[:12]
        rp = os.path.join(REPLAYS, prop, h + ".json")
        with open(rp, "w") as f:
            json.dump(rep, f, indent=1)
        print("VIOLATION property=%s replay=%s  clause=%s pattern=%s occurrences=%d" % (prop, rp, g["clause"], g["pattern"], g["count"]))
    return (1 if nviol else 0), nviol, nknown


def write_evidence(prop, tier, level, coverage, assumptions, wall, violations):
    os.makedirs(EVIDENCE, exist_ok=True)
    ev = {
        "property_id": prop,
        "tier": tier,
        "seed": seed(),
        "level": level,
        "coverage": coverage,
        "assumptions": assumptions,
        "wall_s": round(wall, 2),
        "violations": violations,
    }
    with open(os.path.join(EVIDENCE, prop + ".json"), "w") as f:
        json.dump(ev, f, indent=1, sort_keys=True)
        f.write("\n")


def repo_head():
    try:
        return subprocess.run(["git", "-C", REPO, "rev-parse", "--short", "HEAD"], capture_output=True, text=True).stdout.strip()
    except Exception:
        return "?"
