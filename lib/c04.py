"""C04 - decoder totality; accepted input is self-consistent and builder-valid (DESIGN section 4, C04).

Input space (supplied by the specification, Codec.Mutants): for small valid seeds of every packet
kind, (a) semantic corruptions expressed on the abstract packet - packet id 0, QoS 3, reason codes
outside the enumeration, forbidden / duplicated / zero-valued / flag>1 properties (from the C18
table), invalid UTF-8, wildcard or empty topics, empty entry lists, bad share names, password
without user name - encoded by the reference; (b) byte-level edits of the reference encoding -
truncation at every offset, trailing bytes, every single-bit flip, insertion of 00/80/FF at every
offset, deletion, every length prefix +1/-1/0/FFFF, every Property Length padded to a non-minimal
variable byte integer, reserved flag bits. Thorough adds a second generic edit on every structural
mutant. The harness adds (driver only) every byte string of length <= L over the reduced alphabet
{00,01,02,03,7F,80,FF, the 27 property identifiers} for every parser, seeded random strings and
multi-edit mutants; the sub-parsers (Property, Properties, SubEntry, MqttString, MqttBinary,
VariableByteInteger) get the same treatment.
Totality (no panic, consumed <= len) is observed by the harness on every input (catch_unwind,
overflow-checked build). For every input a real parser ACCEPTS, TLC (Trace_Codec, MODE C04) judges:
  panic, consumed, size (= length of the re-serialisation), reparse-equal (re-serialisation parses
  and gives an equal packet), valid-after-accept (Codec.Broken(fields read by accessors) = {}).
Not verdicts (DRIFT): re-serialisation differs from the reference encoding of the accessor values
(leniency that re-serialises consistently is allowed by the statement); an invalid input that the
parser normalised into a valid packet.
"""
import json
import os
import re
import time

import codec_common as cc
import vlib

PROP = "C04"

SEMANTIC_OPS = ["pid-zero", "qos-3", "topic-wildcard", "topic-empty", "topic-utf8", "password-without-user", "cid-utf8", "user-utf8",
                "wtopic-utf8", "rc-invalid", "codes-empty", "entries-empty", "sub-qos-3", "sub-rh-3", "filter-utf8", "share-name",
                "auth-data-without-method", "auth-continue-without-method"]
BYTE_OPS = ["seed", "truncate", "trailing", "flip", "insert", "delete", "flags", "connect-flags", "protocol", "ack-flags", "sub-opts",
            "pad-vbi-proplen", "pad-vbi-wproplen", "pad-vbi-subid", "len-plus-proplen", "len-minus-proplen", "len-plus-topic", "len-minus-topic",
            "len-max-topic", "len-zero-topic", "len-plus-cid", "len-plus-entry", "len-plus-filter"]
PROP_OPS = ["prop-forbidden", "prop-duplicate", "prop-value", "prop-utf8"]
LOCS = ["connect", "will", "connack", "publish", "puback", "pubrec", "pubrel", "pubcomp", "subscribe", "suback", "unsubscribe",
        "unsuback", "disconnect", "auth"]


def split_records(path, wd, chunk):
    """Split a record file (root + records) into files of at most `chunk` records, re-numbered."""
    parts = []
    buf = []
    head = re.compile(r'^\{"id":\d+,')

    def flush():
        if not buf:
            return
        p = os.path.join(wd, "records.part%d.ndjson" % len(parts))
        with open(p, "w") as f:
            f.write(json.dumps({"id": 0, "parent": 0, "kids": list(range(1, len(buf) + 1)), "k": "root"}) + "\n")
            for i, l in enumerate(buf):
                f.write(head.sub('{"id":%d,' % (i + 1), l, count=1))
        parts.append(p)
        del buf[:]

    with open(path) as f:
        for i, line in enumerate(f):
            if i == 0:
                continue
            buf.append(line)
            if len(buf) >= chunk:
                flush()
    flush()
    return parts


def main(tier, replay=None):
    t0 = time.time()
    if replay:
        return cc.run_replay(PROP, "C04", replay, cc.pattern_c04)
    thorough = tier == "thorough"
    wd = vlib.workdir(PROP)
    binary = cc.build()
    items, nitems, mc = cc.gen_items("MC_Codec_c04_%s.cfg" % tier, wd, tier)
    trie = os.path.join(wd, "records.ndjson")
    hargs = ["c04", "--vectors", items, "--exhaust", "4" if thorough else "3", "--random", "1000000" if thorough else "200000",
             "--seed", str(vlib.seed()), "--sample", "256" if thorough else "64", "--threads", str(cc.workers(tier)), "--out", trie]
    hs = vlib.harness(binary, hargs, timeout=1500)

    # ---- non-vacuity: every mutation operator, every property-location cell, every parser
    by_op = hs.get("by_op", {})
    missing = [o for o in SEMANTIC_OPS + BYTE_OPS + ["exhaustive", "random", "multi-edit"] if by_op.get(o, [0])[0] == 0]
    missing += ["%s@%s" % (o, l) for o in PROP_OPS for l in LOCS
                if by_op.get("%s@%s" % (o, l), [0])[0] == 0 and not (o == "prop-value" and l not in ("connect", "will", "connack", "publish", "subscribe"))
                and not (o == "prop-duplicate" and l == "unsubscribe")]
    if missing:
        raise vlib.ToolError("vacuous run: mutation operators never exercised: %s" % missing[:8])
    by_kind = hs.get("by_kind", {})
    want = cc.expected_groups() + ["%s v50 w16" % k for k in ("x-prop", "x-props", "x-subentry", "x-string", "x-binary", "x-vbi")]
    dead = [g for g in want if by_kind.get(g, [0, 0])[0] == 0 or by_kind.get(g, [0, 0])[1] == 0]
    if dead:
        raise vlib.ToolError("vacuous run: parsers never fed / never accepting anything: %s" % dead[:6])

    # ---- judge (chunked)
    groups = {}
    drift = {}
    judged = 0
    nviol = 0
    samples = []
    for part in split_records(trie, wd, 60000):
        viols, drifts, tres = cc.judge("C04", part, wd, tier)
        judged += tres["distinct"] - 2
        nodes = cc.load_nodes(part, [n for n, _ in viols] + [n for n, _ in drifts] + ([1, 2, 3] if not samples else []))
        if not samples:
            for n in (1, 2, 3):
                if n in nodes:
                    r = nodes[n]
                    samples.append({k: r[k] for k in ("k", "v", "w", "flags", "op", "body", "accepted", "consumed", "size", "reser_len")})
        nviol += len(viols)
        cc.group(PROP, nodes, viols, cc.pattern_c04, groups, tag="c04")
        for k, v in cc.drift_summary(nodes, drifts, limit=0).items():
            drift[k] = drift.get(k, 0) + v
        os.remove(part)
    variants = {}
    if thorough:
        # the quick input set again on builds with the small-string optimisation switched on
        qitems, qn, _ = cc.gen_items("MC_Codec_c04_quick.cfg", wd, "quick")
        for feat in cc.SSO_FEATURES:
            vb = cc.build_variant(feat)
            vt = os.path.join(wd, "records_%s.ndjson" % feat)
            vh = vlib.harness(vb, ["c04", "--vectors", qitems, "--exhaust", "3", "--random", "30000", "--seed", str(vlib.seed()),
                                   "--threads", str(cc.workers(tier)), "--out", vt], timeout=1500)
            viols, drifts, tres = cc.judge("C04", vt, wd, tier)
            nodes = cc.load_nodes(vt, [n for n, _ in viols])
            cc.group(PROP, nodes, viols, cc.pattern_c04, groups, tag="c04")
            variants[feat] = {"inputs": vh["inputs"], "accepted": vh["accepted"], "panics": vh["panics"], "judged": tres["distinct"] - 2,
                              "violating_records": len(viols)}
            judged += tres["distinct"] - 2
            nviol += len(viols)
            os.remove(vt)
    for i, k in enumerate(sorted(drift)):
        if i < 6:
            print("DRIFT %s occurrences=%d" % (k, drift[k]))
    if judged < 2:
        raise vlib.ToolError("vacuous run: no accepted input was judged")
    res = {"groups": groups, "drift": drift}
    cov = {
        "evaluations": hs["inputs"],
        "distinct_nontrivial": judged,
        "rule": "inputs = every mutant TLC enumerates from Codec.Mutants over %d seeds-with-mutants items (%s), every byte string of "
                "length <= %d over the 31-letter reduced alphabet for each of %d parser instantiations, and %d seeded random / "
                "multi-edit strings. Every input is fed to the real parser under catch_unwind. distinct_nontrivial = inputs the "
                "real parser ACCEPTED (or that panicked) with a distinct observable behaviour (accessor values, size, "
                "re-serialisation, re-parse), each recorded and judged by TLC against Codec.tla." % (
                    nitems, "depth 2" if thorough else "depth 1", 4 if thorough else 3, hs.get("parsers", 0), 1000000 if thorough else 200000),
        "samples": samples,
        "exhaustive": False,
        "accepted_inputs": hs["accepted"],
        "panics_observed": hs["panics"],
        "spec_mutants": nitems,
        "sso_feature_builds": variants,
        "states": mc["distinct"],
        "transitions": mc["printed"],
        "inputs_per_operator": {k: v[0] for k, v in by_op.items()},
        "accepted_per_operator": {k: v[1] for k, v in by_op.items()},
        "violating_records": nviol,
        "checker_cmd": "tlc MC_Codec_c04_%s.cfg MC_Codec; codec-harness %s; MODE=C04 tlc Trace_Codec" % (tier, " ".join(hargs[:-2])),
    }
    return cc.finish(PROP, tier, "exploration", res, cov, [
        "absence of panics is observed on the inputs fed, never proved (DESIGN section 5)",
        "'reading outside the input' is observed through Rust's bounds checks (a violation would be a panic) in an overflow-checked debug build",
        "a non-minimal Remaining Length is not observable at parse(body) level (it belongs to the stream framing, C09)",
        "accepted inputs with the same observable behaviour as an already recorded input of the same parser are judged once; for the enumerations of length >= 4 and the random strings, unremarkable accepted inputs are sampled (1 in 64/256) while every input that the harness's own pre-check finds suspicious is recorded",
        "valid-after-accept uses Codec.Broken, a transcription of the builders' rules (DESIGN appendix C), not the live builders",
    ], t0)
