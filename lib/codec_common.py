"""Shared machinery of the codec checks C02, C03, C04, C18 (DESIGN section 4).

Pipeline of every check:
  1. TLC on MC_Codec.tla (a committed cfg per mode/tier): checks the reference Codec.tla for
     internal consistency and prints one JSON item per abstract packet / table cell / mutant.
  2. codec-harness (rebuilt against /repo's working tree) executes every item on the real
     library through the public builders / parsers / accessors and writes an NDJSON record file.
  3. TLC on Trace_Codec.tla judges every record (MODE = the property); VIOL lines are verdicts,
     DRIFT lines are not.
  4. grouping by signature (property, clause, pattern), known findings, replay files, evidence.
"""
import json
import os
import re
import time

import vlib

LINE_RE = re.compile(r'^<<"(VIOL|DRIFT)", (\d+), \{(.*)\}>>$')
ALL_GROUPS = None


def workers(tier):
    return 16 if tier == "thorough" else 8


def xmx(tier):
    return "24g" if tier == "thorough" else "6g"


def build():
    """The registered checks build the harness against /repo's working tree (vlib.build). For
    experiments only (sanity mutants, trying a proposed fix) VERIF_CODEC_REPO=<other checkout> builds
    the same harness against that checkout instead, into its own target directory, so that /repo
    never has to be touched."""
    alt = os.environ.get("VERIF_CODEC_REPO")
    if not alt:
        return vlib.build("codec-harness")
    tdir = os.path.join(vlib.WORK, "codec_alt_target")
    t0 = time.time()
    p = vlib.run(["cargo", "build", "--offline", "-q", "-p", "codec-harness", "--config", 'paths=["%s"]' % alt,
                  "--target-dir", tdir], timeout=1500, cwd=vlib.HARNESS, env={"CARGO_NET_OFFLINE": "true"})
    if p.returncode != 0:
        vlib.log((p.stderr or "")[-4000:])
        raise vlib.ToolError("cargo build of codec-harness against %s failed" % alt)
    vlib.log("[build] codec-harness against %s in %.1fs" % (alt, time.time() - t0))
    return os.path.join(tdir, "debug", "codec-harness")


SSO_FEATURES = ["sso-min-32bit", "sso-min-64bit", "sso-lv20"]     # inline buffers of 12 / 24 / 48 bytes


def build_variant(feature):
    """The same harness with one of the library's small-string-optimisation features switched on
    (the default build has none). Own target directory: never overwrites target/debug/codec-harness."""
    tdir = os.path.join(vlib.WORK, "codec_sso_target", feature)
    cmd = ["cargo", "build", "--offline", "-q", "-p", "codec-harness", "--features", feature, "--target-dir", tdir]
    alt = os.environ.get("VERIF_CODEC_REPO")
    if alt:
        cmd += ["--config", 'paths=["%s"]' % alt]
    t0 = time.time()
    p = vlib.run(cmd, timeout=1500, cwd=vlib.HARNESS, env={"CARGO_NET_OFFLINE": "true"})
    if p.returncode != 0:
        vlib.log((p.stderr or "")[-4000:])
        raise vlib.ToolError("cargo build of codec-harness with feature %s failed" % feature)
    vlib.log("[build] codec-harness --features %s in %.1fs" % (feature, time.time() - t0))
    return os.path.join(tdir, "debug", "codec-harness")


# ---------------------------------------------------------------- step 1: items from the specification

def gen_items(cfg, wd, tier, timeout=1500):
    """Run MC_Codec with a committed cfg; returns (ndjson path, distinct items, tlc result)."""
    mc = vlib.tlc("MC_Codec", cfg, wd, workers=workers(tier), xmx=xmx(tier), timeout=timeout)
    if not mc["completed"] or mc["errors"]:
        tail = "\n".join(open(mc["out"], errors="replace").read().splitlines()[-40:])
        vlib.log(tail[-4000:])
        raise vlib.ToolError("MC_Codec/%s: the reference specification failed its own consistency check: %s" % (cfg, mc["errors"][:2]))
    dest = os.path.join(wd, os.path.splitext(cfg)[0] + ".ndjson")
    seen = set()
    total = 0
    with open(dest, "w") as f:
        for payload in vlib.printed(mc["out"], "V"):
            total += 1
            if payload in seen:
                continue
            seen.add(payload)
            f.write(payload + "\n")
    mc["printed"] = total
    os.remove(mc["out"])  # large; everything needed is in the ndjson
    return dest, len(seen), mc


def split_file(path, wd, chunk):
    """Split an NDJSON file into chunks of at most `chunk` lines; returns the chunk paths."""
    out = []
    f = None
    n = 0
    with open(path) as src:
        for line in src:
            if f is None or n >= chunk:
                if f:
                    f.close()
                p = os.path.join(wd, "%s.part%d" % (os.path.basename(path), len(out)))
                out.append(p)
                f = open(p, "w")
                n = 0
            f.write(line)
            n += 1
    if f:
        f.close()
    return out


# ---------------------------------------------------------------- step 3: judge

def judge(mode, trie, wd, tier, timeout=1500):
    """Run Trace_Codec over a record file. Returns (viols, drifts, tlc result); each of viols /
    drifts is a list of (node id, [clause, ...])."""
    # one worker: every TLC worker would deserialise the record file again (measured: 25 000 records
    # are judged in 3.6 s by one worker and in 40 s by sixteen)
    res = vlib.tlc("Trace_Codec", "Trace_Codec.cfg", wd, workers=1, xmx=xmx(tier), timeout=timeout,
                   env={"TRIE": trie, "MODE": mode}, xss="1g")
    txt = open(res["out"], errors="replace").read()
    if not res["completed"] or res["errors"]:
        vlib.log("\n".join(txt.splitlines()[-40:])[-4000:])
        raise vlib.ToolError("trace judgement Trace_Codec (%s) did not complete: %s" % (mode, res["errors"][:2]))
    if '<<"UNVISITED"' in txt:
        raise vlib.ToolError("trace judgement Trace_Codec (%s) did not visit every record" % mode)
    if '<<"INTEGRITY"' in txt:
        raise vlib.ToolError("harness did not use the specification's reference bytes (integrity check failed)")
    viols, drifts = [], []
    for line in txt.splitlines():
        m = LINE_RE.match(line.strip())
        if not m:
            continue
        clauses = [c.strip().strip('"') for c in m.group(3).split(",") if c.strip()]
        (viols if m.group(1) == "VIOL" else drifts).append((int(m.group(2)), clauses))
    return viols, drifts, res


def load_nodes(path, ids):
    """Only the records named in ids (record id = line number)."""
    want = set(ids)
    out = {}
    if not want:
        return out
    with open(path) as f:
        for i, line in enumerate(f):
            if i in want:
                out[i] = json.loads(line)
    return out


def count_lines(path):
    n = 0
    with open(path) as f:
        for _ in f:
            n += 1
    return n


# ---------------------------------------------------------------- patterns and grouping

def kvw(r):
    p = r.get("p", r)
    return "%s %s w%s" % (p.get("k"), p.get("v"), p.get("w"))


def pattern_vec(r, clause):
    return kvw(r)


def cell_value_class(r):
    cell = r.get("cell", {})
    loc = cell.get("loc")
    p = r["p"]
    if loc == "will":
        ps = p["will"][0]["props"]
    elif p["k"] in ("puback", "pubrec", "pubrel", "pubcomp", "disconnect", "auth"):
        ps = p["props"][0] if p["props"] else []
    else:
        ps = p["props"]
    q = [x for x in ps if x["id"] == cell.get("id")]
    if not q:
        return "?"
    n = q[-1]["n"]["hi"] * 65536 + q[-1]["n"]["lo"]
    if cell.get("id") in (1, 23, 25, 36, 37, 40, 41, 42):
        return "value=%d" % n
    if cell.get("id") in (33, 35, 39, 11):
        return "value=0" if n == 0 else "value=nonzero"
    return "value=any"


def pattern_c18(r, clause):
    c = r.get("cell", {})
    return "%s prop=%s x%s %s" % (c.get("loc"), c.get("id"), c.get("cnt"), cell_value_class(r))


def split_clause(c):
    """'valid-after-accept:pid-zero' -> ('valid-after-accept', 'pid-zero')"""
    if ":" in c:
        a, b = c.split(":", 1)
        return a, b
    return c, ""


def pattern_c04(r, clause_detail):
    clause, detail = clause_detail
    if clause == "size":
        detail = "delta=%d" % (r.get("size", 0) - r.get("reser_len", 0))
    if clause == "consumed":
        detail = "consumed>input"
    return ("%s %s" % (kvw(r), detail)).strip()


def group(prop, nodes, viols, pattern_fn, groups=None, tag=""):
    """groups: signature -> {clause, pattern, count, example}; example = (tag, record)"""
    groups = {} if groups is None else groups
    for nid, clauses in viols:
        r = nodes[nid]
        for c in clauses:
            clause, detail = split_clause(c)
            pat = pattern_fn(r, (clause, detail)) if pattern_fn is pattern_c04 else pattern_fn(r, clause)
            sig = "%s|%s|%s" % (prop, clause, pat)
            g = groups.setdefault(sig, {"clause": clause, "pattern": pat, "count": 0, "example": None, "cost": 10 ** 12})
            g["count"] += 1
            cost = len(json.dumps(r.get("p", r.get("body", ""))))
            if cost < g["cost"]:
                g["cost"], g["example"] = cost, (tag, r)
    return groups


def drift_summary(nodes, drifts, limit=8):
    """DRIFT lines: printed (never a verdict), counted in the evidence."""
    counts = {}
    for nid, notes in drifts:
        r = nodes.get(nid)
        for c in notes:
            key = "%s @ %s" % (c, kvw(r) if r else "?")
            counts[key] = counts.get(key, 0) + 1
    for i, k in enumerate(sorted(counts)):
        if limit == 0:
            break
        if i >= limit:
            print("DRIFT ... %d more kinds of drift (see evidence)" % (len(counts) - limit))
            break
        print("DRIFT %s occurrences=%d" % (k, counts[k]))
    return counts


# ---------------------------------------------------------------- replay

def replay_record(mode, r):
    """What is needed to re-execute one record: the item the specification produced for it."""
    if mode == "c04":
        item = {k: r[k] for k in ("k", "v", "w", "flags", "body", "op", "reject")}
        shown = {k: r.get(k) for k in ("accepted", "consumed", "in_len", "size", "reser_len", "rp_ok", "rp_eq", "rp_err",
                                       "fields", "rp_fields", "rebuild_ok", "panic")}
    else:
        item = {"p": r["p"]}
        if "cell" in r:
            item["cell"] = r["cell"]
        shown = {k: r.get(k) for k in ("built", "berr", "size", "cont_len", "hdr", "vec_equal", "fwd_equal", "fwd_diff", "fwd_got",
                                       "fwd_want", "rp_ok", "rp_err", "rp_eq", "rp_consumed", "ref_ok", "ref_err", "ref_consumed",
                                       "panic")}
    return {"harness": "codec", "mode": mode, "item": item, "observed": shown}


def run_replay(prop, mode_trace, replay_path, pattern_fn):
    """./check <id> --replay <file>: re-execute the single item and re-judge it with TLC."""
    wd = vlib.workdir(prop + "_replay")
    binary = build()
    rep = json.load(open(replay_path))
    item = rep["item"]
    vec = os.path.join(wd, "item.ndjson")
    if rep["mode"] == "c04":
        with open(vec, "w") as f:
            f.write(json.dumps(item) + "\n")
        hmode = "c04"
    else:
        # the reference bytes are recomputed by the specification from the abstract packet
        with open(vec, "w") as f:
            f.write(json.dumps(item) + "\n")
        vec = reencode(item, wd)
        hmode = "vec"
    trie = os.path.join(wd, "records.ndjson")
    vlib.harness(binary, [hmode, "--vectors", vec, "--out", trie, "--threads", "1"])
    viols, drifts, _ = judge(mode_trace, trie, wd, "quick")
    nodes = load_nodes(trie, [n for n, _ in viols] + [n for n, _ in drifts])
    groups = group(prop, nodes, viols, pattern_fn, tag=rep["mode"])
    code, nv, nk = vlib.verdict(prop, groups, lambda ex: replay_record(ex[0], ex[1]))
    print("replay: %d record(s), %d violating" % (count_lines(trie) - 1, len(viols)))
    return code


def reencode(item, wd):
    """Let TLC compute Enc / SizeOf of the abstract packet of a replay file (Replay_Codec.tla)."""
    src = os.path.join(wd, "replay_in.ndjson")
    with open(src, "w") as f:
        f.write(json.dumps(item) + "\n")
    res = vlib.tlc("Replay_Codec", "Replay_Codec.cfg", wd, workers=1, timeout=300, env={"ITEM": src})
    if not res["completed"]:
        raise vlib.ToolError("Replay_Codec did not complete")
    dest = os.path.join(wd, "replay_vec.ndjson")
    n = 0
    with open(dest, "w") as f:
        for payload in vlib.printed(res["out"], "V"):
            f.write(payload + "\n")
            n += 1
    if n != 1:
        raise vlib.ToolError("Replay_Codec produced %d vectors" % n)
    return dest


# ---------------------------------------------------------------- the C02 / C03 / C18 pipeline

def vec_pipeline(prop, mode_trace, cfg, tier, pattern_fn, chunk=100000, hmode_tag="vec", sso_variants=False):
    """Items -> harness -> judge, chunked. Returns dict with everything the callers report."""
    wd = vlib.workdir(prop)
    binary = build()
    items, nitems, mc = gen_items(cfg, wd, tier)
    parts = split_file(items, wd, chunk)
    groups = {}
    drift_counts = {}
    by_kind = {}
    cells = {}
    built = panics = judged = 0
    nviol_nodes = 0
    samples = []
    twall = 0.0
    for i, part in enumerate(parts):
        trie = os.path.join(wd, "records%d.ndjson" % i)
        hs = vlib.harness(binary, ["vec", "--vectors", part, "--out", trie, "--threads", str(workers(tier))], timeout=1500)
        built += hs.get("built", 0)
        panics += hs.get("panics", 0)
        for k, v in hs.get("by_kind", {}).items():
            a = by_kind.setdefault(k, [0, 0])
            a[0] += v[0]
            a[1] += v[1]
        for k, v in hs.get("cells", {}).items():
            cells[k] = cells.get(k, 0) + v
        viols, drifts, tres = judge(mode_trace, trie, wd, tier)
        twall += tres["wall"]
        judged += tres["distinct"] - 2
        nodes = load_nodes(trie, [n for n, _ in viols] + [n for n, _ in drifts] + ([1, 2] if i == 0 else []))
        if i == 0:
            for n in (1, 2):
                if n in nodes:
                    r = nodes[n]
                    samples.append({"packet": r["p"], "built": r["built"], "size": r["size"], "wire_prefix": r["hdr"],
                                    "reparse_ok": r["rp_ok"], "reference_parse_ok": r["ref_ok"]})
        nviol_nodes += len(viols)
        group(prop, nodes, viols, pattern_fn, groups, tag=hmode_tag)
        for k, v in drift_summary(nodes, drifts, limit=0 if i else 6).items():
            drift_counts[k] = drift_counts.get(k, 0) + v
        os.remove(trie)
    variants = {}
    if tier == "thorough" and sso_variants:
        # the quick vector set again on builds with the small-string optimisation switched on
        qitems, qn, _ = gen_items(cfg.replace("thorough", "quick"), wd, "quick")
        for feat in SSO_FEATURES:
            vb = build_variant(feat)
            trie = os.path.join(wd, "records_%s.ndjson" % feat)
            hs = vlib.harness(vb, ["vec", "--vectors", qitems, "--out", trie, "--threads", str(workers(tier))], timeout=1500)
            viols, drifts, tres = judge(mode_trace, trie, wd, tier)
            nodes = load_nodes(trie, [n for n, _ in viols])
            group(prop, nodes, viols, pattern_fn, groups, tag=hmode_tag)
            variants[feat] = {"vectors": qn, "built": hs.get("built", 0), "violating_records": len(viols)}
            judged += tres["distinct"] - 2
            nviol_nodes += len(viols)
            os.remove(trie)
    return {"wd": wd, "items": nitems, "mc": mc, "groups": groups, "drift": drift_counts, "by_kind": by_kind, "built": built,
            "panics": panics, "judged": judged, "violating_records": nviol_nodes, "samples": samples, "judge_wall": twall,
            "sso_variants": variants, "cells": cells}


def expected_groups():
    out = []
    k311 = ["connect", "connack", "publish", "puback", "pubrec", "pubrel", "pubcomp", "subscribe", "suback", "unsubscribe",
            "unsuback", "pingreq", "pingresp", "disconnect"]
    haspid = {"publish", "puback", "pubrec", "pubrel", "pubcomp", "subscribe", "suback", "unsubscribe", "unsuback"}
    for v, ks in (("v311", k311), ("v50", k311 + ["auth"])):
        for k in ks:
            for w in ((16, 32) if k in haspid else (16,)):
                out.append("%s %s w%d" % (k, v, w))
    return out


def require_all_kinds(by_kind, what="built"):
    """Non-vacuity: every one of the 29 packet kinds (x identifier width) was exercised."""
    missing = [g for g in expected_groups() if by_kind.get(g, [0, 0])[0] == 0]
    if missing:
        raise vlib.ToolError("vacuous run: packet kinds never exercised: %s" % missing[:6])
    unbuilt = [g for g in expected_groups() if by_kind.get(g, [0, 0])[1] == 0]
    if unbuilt:
        raise vlib.ToolError("vacuous run: no packet of these kinds was %s: %s" % (what, unbuilt[:6]))


ALLOWED_AT = {
    "connect": [17, 21, 22, 23, 25, 33, 34, 38, 39], "will": [1, 2, 3, 8, 9, 24, 38],
    "connack": [17, 18, 19, 21, 22, 26, 28, 31, 33, 34, 36, 37, 38, 39, 40, 41, 42], "publish": [1, 2, 3, 8, 9, 11, 35, 38],
    "puback": [31, 38], "pubrec": [31, 38], "pubrel": [31, 38], "pubcomp": [31, 38], "subscribe": [11, 38], "suback": [31, 38],
    "unsubscribe": [38], "unsuback": [31, 38], "disconnect": [17, 28, 31, 38], "auth": [21, 22, 31, 38]}


def require_all_cells(cells):
    """Non-vacuity: every property kind at every location where it may appear was carried by at
    least one packet the real builder accepted (64 cells)."""
    missing = ["%s:%d" % (l, i) for l, ids in ALLOWED_AT.items() for i in ids if not cells.get("%s:%d" % (l, i))]
    if missing:
        raise vlib.ToolError("vacuous run: (location, property) cells never carried by a built packet: %s" % missing[:8])


def finish(prop, tier, level, res, coverage, assumptions, t0):
    code, nv, nk = vlib.verdict(prop, res["groups"], lambda ex: replay_record(ex[0], ex[1]))
    coverage.setdefault("known_finding_signatures", nk)
    coverage.setdefault("drift", res.get("drift", {}))
    coverage.setdefault("repo_head", vlib.repo_head())
    vlib.write_evidence(prop, tier, level, coverage, assumptions, time.time() - t0, nv)
    return code
