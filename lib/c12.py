"""C12 - see DESIGN.md section 4."""
import endpoint

PROP = "C12"
QUICK = ["qos_c311", "qos_c50_rm", "qos_offline", "qos_server"]
THOROUGH = ["qos_c311", "qos_c311_auto", "qos_c50", "qos_c50_rm", "qos_offline", "qos_server"]


def nontrivial(n):
    return n['obs']['vacancy'] >= 0


def main(tier, replay=None):
    return endpoint.run(PROP, tier, QUICK, THOROUGH, nontrivial, replay=replay,
                        extra_rule="a QoS>0 PUBLISH is sent or acknowledged under a Receive Maximum")
