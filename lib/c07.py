"""C07 - connection-level property decided on Endpoint.tla; see lib/endpoint_props.py and DESIGN.md section 4."""
import endpoint_props


def main(tier, replay=None):
    return endpoint_props.main("C07", tier, replay)
