"""C18 - v5.0 property placement and multiplicity (DESIGN section 4, C18).

Codec.Allowed[loc][id], Repeatable, ForbiddenValue are transcribed from MQTT 5.0 table 2-4 and the
per-packet sections. MC_Codec (Mode "c18") enumerates the WHOLE table: 14 property-carrying
locations (CONNECT, will, CONNACK, PUBLISH, PUBACK, PUBREC, PUBREL, PUBCOMP, SUBSCRIBE, SUBACK,
UNSUBSCRIBE, UNSUBACK, DISCONNECT, AUTH) x 27 property kinds x occurrences {1,2} x boundary values,
and checks that the table agrees with ValidPacket. For every cell the real builder path
(property constructor + props() + build()) and the real parser on the reference encoding are
recorded; TLC judges both against the table and against each other.
Clauses: panic, builder-accepts, builder-rejects, parser-accepts, parser-rejects,
         builder-parser-agree.  Exhaustive in both tiers.
"""
import json
import time

import codec_common as cc
import vlib

PROP = "C18"
LOCS = ["connect", "will", "connack", "publish", "puback", "pubrec", "pubrel", "pubcomp", "subscribe", "suback", "unsubscribe",
        "unsuback", "disconnect", "auth"]
PROP_IDS = [1, 2, 3, 8, 9, 11, 17, 18, 19, 21, 22, 23, 24, 25, 26, 28, 31, 33, 34, 35, 36, 37, 38, 39, 40, 41, 42]


def main(tier, replay=None):
    t0 = time.time()
    if replay:
        return cc.run_replay(PROP, "C18", replay, cc.pattern_c18)
    res = cc.vec_pipeline(PROP, "C18", "MC_Codec_c18.cfg", tier, cc.pattern_c18)
    # non-vacuity: every (location, property, occurrences) cell was executed, both verdicts occur
    cells = set()
    expects = {True: 0, False: 0}
    with open(res["wd"] + "/MC_Codec_c18.ndjson") as f:
        for line in f:
            v = json.loads(line)
            c = v["cell"]
            cells.add((c["loc"], c["id"], c["cnt"]))
            expects[bool(v["expect"])] += 1
    missing = [(l, i, n) for l in LOCS for i in PROP_IDS for n in (1, 2) if (l, i, n) not in cells]
    if missing:
        raise vlib.ToolError("vacuous run: table cells never exercised: %s" % missing[:5])
    if not expects[True] or not expects[False] or res["judged"] != res["items"]:
        raise vlib.ToolError("vacuous run: cells %s, judged %d of %d" % (expects, res["judged"], res["items"]))
    mc = res["mc"]
    cov = {
        "states": mc["distinct"],
        "transitions": mc["printed"],
        "traces_validated_against_impl": res["judged"],
        "samples": res["samples"],
        "exhaustive": True,
        "evaluations": res["items"],
        "distinct_nontrivial": len(cells),
        "rule": "the finite table 14 locations x 27 property kinds x occurrences {1,2} x boundary values (0/1/2/255 for flag "
                "properties, 0/1/max for the non-zero ones) is enumerated completely by TLC; each cell = one valid packet of the "
                "location's kind around the property list, executed through the real builder and (reference-encoded) the real "
                "parser. distinct_nontrivial = distinct (location, property, occurrences) cells executed.",
        "cells_expected_accept": expects[True],
        "cells_expected_reject": expects[False],
        "builder_accepted": res["built"],
        "violating_records": res["violating_records"],
        "checker_cmd": "tlc MC_Codec_c18.cfg MC_Codec; codec-harness vec; MODE=C18 tlc Trace_Codec",
    }
    return cc.finish(PROP, tier, "model_checking", res, cov, [
        "the statement counts 16 locations; the library (and the OASIS table) has 14 property-carrying locations - PINGREQ/PINGRESP carry none",
        "Payload Format Indicator other than 0/1 cannot be expressed through its constructor (enum argument): counted as rejected by the builder path",
        "AUTH cells carry an Authentication Method next to Authentication Data (the AUTH builder requires it); reason code Success",
        "agreement of the table in Codec.tla with MQTT 5.0 table 2-4 is by transcription and review",
    ], t0)
