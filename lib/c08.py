"""C08 - packet identifiers: unique while in use, released exactly once, never leaked."""
import endpoint

PROP = "C08"
QUICK = ["qos_c311", "qos_c50_rm", "qos_offline"]
THOROUGH = ["qos_c311", "qos_c311_auto", "qos_c50", "qos_c50_rm", "qos_offline", "qos_server"]


def nontrivial(n):
    return n["call"]["op"] in ("acquire", "register", "release") or any(e["ev"] == "released" for e in n["out"])


def main(tier, replay=None):
    return endpoint.run(PROP, tier, QUICK, THOROUGH, nontrivial, replay=replay,
                        extra_rule="an identifier is acquired, registered or released")
