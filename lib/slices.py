"""Model-checking slices of MC_Endpoint.tla: each is an assignment of the alphabet constants.
`python3 lib/slices.py` (run by setup.sh) writes spec/MC_<name>.cfg for every slice; the table below is
the single source of truth. 99999 stands for "absent" (TLC cfg files cannot hold negative numbers).
"""
import os

NA = 99999

DEFAULT = dict(
    Roles={"client"}, Vers={"v311"}, Idws={16},
    CheckProps={"C05", "C06", "C07", "C08", "C10", "C11", "C12", "C13", "C14", "C15", "C16", "C17", "C19"},
    OptSets=[set()], RespTimeouts={0},
    MaxConns=1, MaxHeld=1, MaxUsed=2,
    AppKinds=set(), PeerKinds=set(),
    QosSet={1}, Topics={"t1"}, Aliases={0},
    InPids={1}, ExtraPids={9}, Rcs={0},
    Cleans={True}, KAs={0}, ConnRMs={NA}, ConnTAMs={NA}, ConnMPSs={NA}, ConnSEIs={NA},
    SPs={False}, ConnackRcs={0}, AckRMs={NA}, AckTAMs={NA}, AckMPSs={NA}, AckSEIs={NA}, SKAs={NA},
    RogueHandshake=False, PartialFrames=False,
    Intervals=set(),
    Fire=False, Close=True, Erase=False, IdOps=False, Crash=False, Garbage=False, BadFrames=set(),
    SendWhileDisc=False, PeerWhileDisc=False, LateFrames=False, CrossVersion=False, Restore=False, Regulate_=False, OptFlips=set(), FreeIdSends=False, LateSends=False, Msgs={"m1"},
    # not TLC constants:
    invariants=[],
)

ACKS = {"puback", "pubrec", "pubcomp"}

SLICES = {
    # outbound QoS 1/2 exchanges, store, resume (C06 C08 C12 C16)
    "qos_c311": dict(AppKinds={"publish", "pubrel"}, PeerKinds=ACKS, QosSet={1, 2}, MaxConns=2,
                     Cleans={True, False}, SPs={True, False}),
    "qos_c311_auto": dict(AppKinds={"publish"}, PeerKinds=ACKS, QosSet={1, 2}, MaxConns=2, OptSets=[{"auto_pub"}],
                          Cleans={True, False}, SPs={True, False}, Erase=True),
    "qos_c50": dict(Vers={"v50"}, AppKinds={"publish", "pubrel"}, PeerKinds=ACKS, QosSet={1, 2}, MaxConns=2,
                    Cleans={False}, SPs={True, False}, ConnSEIs={NA, 10}, AckRMs={NA, 1}, Rcs={0, 128}, MaxUsed=2),
    "qos_c50_rm": dict(Vers={"v50"}, AppKinds={"publish"}, PeerKinds=ACKS, QosSet={1, 2}, MaxConns=2,
                       OptSets=[{"auto_pub"}], Cleans={False}, SPs={True}, ConnSEIs={10}, AckRMs={1, 2}, Rcs={0, 128},
                       MaxUsed=2, Erase=True),
    "qos_offline": dict(Vers={"v311", "v50"}, AppKinds={"publish", "pubrel"}, PeerKinds=ACKS, QosSet={0, 1, 2}, MaxConns=2,
                        OptSets=[set(), {"offline"}], Cleans={True, False}, SPs={True, False}, ConnSEIs={NA, 10}, SendWhileDisc=True),
    "qos_server": dict(Roles={"server"}, Vers={"v311", "v50"}, AppKinds={"publish", "pubrel"}, PeerKinds=ACKS, QosSet={1, 2},
                       MaxConns=2, Cleans={True, False}, SPs={True, False}, ConnSEIs={NA, 10}, ConnRMs={NA, 1}),
    # options switched on and off in the middle of a session (offline publishing, automatic responses)
    "opt_flips": dict(Vers={"v311", "v50"}, AppKinds={"publish"}, PeerKinds={"puback", "publish"}, QosSet={1}, InPids={1}, MaxConns=2,
                      Cleans={True, False}, SPs={True, False}, ConnSEIs={NA, 10}, SendWhileDisc=True, OptFlips={"offline", "auto_pub"},
                      MaxHeld=1, MaxUsed=1),
    # three exchanges in flight: store order survives acknowledgements out of order
    "qos_order": dict(Vers={"v311", "v50"}, AppKinds={"publish"}, PeerKinds={"puback", "pubrec"}, QosSet={1, 2}, MaxConns=2,
                      Cleans={False}, SPs={True}, ConnSEIs={10}, MaxUsed=3, MaxHeld=1, Close=True),
    # inbound QoS 2: exactly-once delivery (C07)
    "in_qos2": dict(Roles={"client", "server"}, Vers={"v311", "v50"}, AppKinds={"pubrec", "pubcomp"}, PeerKinds={"publish", "pubrel"},
                    QosSet={2}, InPids={1, 2}, Rcs={0, 16, 128}, OptSets=[set(), {"auto_pub"}], MaxConns=2,
                    Cleans={True, False}, SPs={True, False}, ConnSEIs={NA, 10}, MaxHeld=0),
    "in_qos2_alias": dict(Roles={"server"}, Vers={"v50"}, AppKinds={"pubrec"}, PeerKinds={"publish", "pubrel"},
                          QosSet={2}, InPids={1}, Topics={"t1", ""}, Aliases={0, 1, 2}, AckTAMs={NA, 1}, Rcs={0},
                          OptSets=[set(), {"auto_pub"}], MaxConns=2, Cleans={False}, ConnSEIs={10}, MaxHeld=0),
    # a CONNECT that does not parse between two connections of a persistent session must not end the session
    "in_qos2_badconnect": dict(Roles={"server"}, Vers={"v311", "v50"}, AppKinds={"pubrec"}, PeerKinds={"publish", "pubrel"}, QosSet={2}, InPids={1},
                               BadFrames={"connect"}, PeerWhileDisc=True, OptSets=[set(), {"auto_pub"}], MaxConns=3, Cleans={False}, ConnSEIs={10}, MaxHeld=0),
    # the application answers late: PUBREC / PUBCOMP handed to send() while the connection is down (refused, must change nothing)
    "in_qos2_disc": dict(Roles={"server", "client"}, Vers={"v50"}, AppKinds={"pubrec", "pubcomp"}, PeerKinds={"publish"}, QosSet={2}, InPids={1},
                         Rcs={0, 128}, MaxConns=2, Cleans={False}, SPs={True}, ConnSEIs={10}, MaxHeld=0, SendWhileDisc=True),
    # the application sends DISCONNECT while a QoS 2 PUBLISH is already on the wire: it still arrives before the close
    "in_qos2_late": dict(Roles={"client"}, Vers={"v311", "v50"}, AppKinds={"disconnect", "pubrec"}, PeerKinds={"publish", "pubrel"},
                         QosSet={2}, InPids={1}, OptSets=[set(), {"auto_pub"}], MaxConns=2, Cleans={False}, SPs={True}, ConnSEIs={10},
                         MaxHeld=0, LateFrames=True),
    "in_rm": dict(Roles={"client", "server"}, Vers={"v50"}, AppKinds={"puback", "pubrec", "pubcomp"}, PeerKinds={"publish", "pubrel"},
                  QosSet={1, 2}, InPids={1, 2}, Rcs={0, 16, 128}, OptSets=[set(), {"auto_pub"}], MaxConns=1,
                  ConnRMs={NA, 1}, AckRMs={NA, 1}, MaxHeld=0),
    # Receive Maximum next to the other reasons for refusing a packet: a PUBLISH refused for its alias after the quota check,
    # an acknowledgement refused because it does not fit the peer's Maximum Packet Size (5-byte PUBACK/PUBREC, limit 4)
    "rm_alias": dict(Vers={"v50"}, AppKinds={"publish"}, PeerKinds={"puback"}, QosSet={1}, Topics={"t1", ""}, Aliases={0, 1, 2},
                     AckTAMs={NA, 1}, AckRMs={1, 2}, MaxHeld=1, MaxUsed=2),
    "in_rm_mps": dict(Vers={"v50"}, AppKinds={"puback", "pubrec", "pubcomp"}, PeerKinds={"publish", "pubrel"}, QosSet={1, 2}, InPids={1, 2}, Rcs={0, 128},
                      ConnRMs={1}, AckMPSs={4}, MaxHeld=0),
    # topic aliases (C13)
    "alias_send": dict(Vers={"v50"}, AppKinds={"publish"}, PeerKinds={"puback"}, QosSet={0, 1}, Topics={"t1", "t2", ""},
                       Aliases={0, 1, 2}, AckTAMs={NA, 0, 1, 2}, AckRMs={NA, 1}, MaxConns=2, Cleans={True}, MaxHeld=1, MaxUsed=2, Regulate_=True),
    "alias_auto": dict(Vers={"v50"}, AppKinds={"publish"}, PeerKinds={"puback"}, QosSet={0, 1}, Topics={"t1", "t2"},
                       Aliases={0, 1}, AckTAMs={NA, 1, 2}, AckRMs={NA, 1}, AckMPSs={NA, 9, 11, 12}, OptSets=[{"auto_map"}, {"auto_replace"}],
                       MaxConns=2, Cleans={False}, ConnSEIs={10}, SPs={True, False}, MaxHeld=1, MaxUsed=1),
    "alias_srv": dict(Roles={"server"}, Vers={"v50"}, AppKinds={"publish"}, PeerKinds={"publish"}, QosSet={0}, Topics={"t1", "t2", ""},
                      Aliases={0, 1, 2}, ConnTAMs={NA, 0, 1}, AckTAMs={NA, 0, 2}, OptSets=[set(), {"auto_map"}], MaxConns=2, MaxHeld=0),
    # a PUBLISH that binds an alias while the handshake is still running is only STORED: the peer never sees that binding
    "alias_early": dict(Roles={"server", "client"}, Vers={"v50"}, AppKinds={"publish"}, PeerKinds={"puback"}, QosSet={1}, Topics={"t1", ""},
                        Aliases={0, 1}, ConnTAMs={1}, AckTAMs={1}, ConnSEIs={10}, Cleans={False}, SPs={False}, SendWhileDisc=True,
                        MaxConns=1, MaxHeld=1, MaxUsed=2),
    # three topics compete for two aliases: which alias is recycled depends on the least-recently-USED order
    "alias_lru": dict(Vers={"v50"}, AppKinds={"publish"}, PeerKinds=set(), QosSet={0}, Topics={"t1", "t2", "t3", ""}, Aliases={0, 1, 2},
                      AckTAMs={2}, OptSets=[{"auto_map"}, {"auto_replace"}, set()], MaxConns=1, MaxHeld=0),
    # an alias (re)bound by a QoS 2 retransmission that is not delivered again still counts
    "alias_dup": dict(Roles={"server"}, Vers={"v50"}, AppKinds=set(), PeerKinds={"publish"}, QosSet={0, 2}, InPids={1}, Topics={"t1", "t2", ""},
                      Aliases={0, 1}, AckTAMs={1}, OptSets=[{"auto_pub"}], MaxConns=2, Cleans={False}, ConnSEIs={10}, MaxHeld=0),
    # an automatically aliased PUBLISH is one byte LONGER than the original when the topic is shorter than the alias property:
    # registration 10 bytes, later publish 11 bytes = the limit, aliased form 12 bytes
    "alias_mps": dict(Vers={"v50"}, AppKinds={"publish"}, PeerKinds=set(), QosSet={0}, Topics={"t1"}, Aliases={0, 1}, Msgs={"", "m4xx"},
                      AckTAMs={1}, AckMPSs={11}, OptSets=[{"auto_replace"}, {"auto_map"}], MaxConns=1, MaxHeld=0),
    # Maximum Packet Size (C14)
    "mps": dict(Vers={"v50"}, AppKinds={"publish", "subscribe", "pingreq", "disconnect"}, PeerKinds={"publish", "puback", "suback"},
                QosSet={0, 1}, Aliases={0, 1}, AckTAMs={NA, 1}, AckMPSs={NA, 2, 3, 10, 11, 13}, ConnMPSs={NA, 10, 11},
                OptSets=[set(), {"auto_pub"}, {"auto_map"}], MaxConns=1, Fire=True, KAs={0, 10}),
    "mps_resume": dict(Roles={"client", "server"}, Vers={"v50"}, AppKinds={"publish"}, PeerKinds={"puback", "pubrec", "pubcomp"}, QosSet={1, 2},
                       AckMPSs={NA, 3, 10, 11}, ConnMPSs={NA, 3, 10, 11}, AckRMs={NA, 2}, OptSets=[{"auto_pub"}], MaxConns=2, Cleans={False},
                       ConnSEIs={10}, SPs={True}, ExtraPids={1, 9}),
    # a stored PUBLISH erased while no exchange is counted on the current connection (server between CONNECT and CONNACK,
    # client with offline publishing between two connections): the send quota neither wraps nor panics
    "erase_rm": dict(Roles={"client", "server"}, Vers={"v50"}, AppKinds={"publish"}, PeerKinds={"puback"}, QosSet={1}, MaxConns=2,
                     Cleans={False}, SPs={True}, ConnSEIs={10}, ConnRMs={NA, 2}, AckRMs={NA, 2}, OptSets=[set(), {"offline"}],
                     SendWhileDisc=True, Erase=True, MaxUsed=1, MaxHeld=1),
    "timers_c": dict(Vers={"v311", "v50"}, AppKinds={"pingreq", "publish", "disconnect"}, PeerKinds={"pingresp", "publish", "disconnect"},
                     QosSet={0}, KAs={0, 10}, SKAs={NA, 0, 5}, Intervals={NA, 0, 7}, RespTimeouts={0, 3}, Fire=True, MaxConns=2, MaxHeld=0,
                     AckMPSs={NA, 2}),
    "timers_s": dict(Roles={"server"}, Vers={"v311", "v50"}, AppKinds={"pingresp", "publish", "disconnect"}, PeerKinds={"pingreq", "publish", "disconnect"},
                     QosSet={0}, KAs={0, 10}, SKAs={NA, 0, 5}, OptSets=[set(), {"auto_ping"}], Fire=True, MaxConns=2, MaxHeld=0,
                     ConnackRcs={0, 135}, AckMPSs={NA}, ConnMPSs={NA, 2}),
    # a server re-arms its receive timer on EVERY packet it accepts: every inbound kind, also a QoS 2 duplicate
    "timers_s_all": dict(Roles={"server"}, Vers={"v311", "v50"}, AppKinds={"pubrec", "pubcomp"},
                         PeerKinds={"publish", "pubrel", "subscribe", "unsubscribe", "pingreq", "auth"}, QosSet={1, 2}, InPids={1},
                         KAs={10}, OptSets=[set(), {"auto_pub"}], Fire=True, MaxConns=1, MaxHeld=0),
    # an erased (expired) PUBLISH whose identifier is used again while the peer's late acknowledgements still arrive
    "erase_reuse": dict(Vers={"v311", "v50"}, AppKinds={"publish", "subscribe"}, PeerKinds={"puback", "pubrec", "pubcomp", "suback"}, QosSet={1, 2},
                        OptSets=[{"auto_pub"}], Erase=True, ExtraPids={1}, MaxConns=1, Cleans={False}, ConnSEIs={10}, MaxHeld=1, MaxUsed=1),
    # QoS>0 PUBLISH with an identifier that was never acquired, also while the send quota is exhausted
    "free_id": dict(Vers={"v311", "v50"}, AppKinds={"publish"}, PeerKinds={"puback"}, QosSet={1}, AckRMs={NA, 1}, ExtraPids={7},
                    FreeIdSends=True, MaxConns=1, MaxHeld=1, MaxUsed=1),
    # an Any-role endpoint that is a server on one connection and a client on the next (and the other way round)
    "timers_any": dict(Roles={"any"}, Vers={"v311", "v50"}, AppKinds={"publish", "pingreq"}, PeerKinds={"publish", "pingreq", "pingresp"}, QosSet={0},
                       KAs={0, 10}, SKAs={NA, 5}, Fire=True, MaxConns=2, MaxHeld=0),
    # SUBSCRIBE and UNSUBSCRIBE in flight together, acknowledged by matching, crossed and unknown SUBACK / UNSUBACK
    "subs": dict(Vers={"v311", "v50"}, AppKinds={"subscribe", "unsubscribe"}, PeerKinds={"suback", "unsuback"}, ExtraPids={9},
                 MaxHeld=1, MaxUsed=2, MaxConns=2, Cleans={True, False}, SPs={True, False}, ConnSEIs={NA, 10}),
    # send gate matrix (C11)
    "gate": dict(Roles={"client", "server", "any"}, Vers={"v311", "v50", "undet"},
                 AppKinds={"publish", "puback", "pubrec", "pubrel", "pubcomp", "subscribe", "suback", "unsubscribe", "unsuback",
                           "pingreq", "pingresp", "disconnect", "auth"},
                 QosSet={0, 1}, OptSets=[set(), {"offline"}], Cleans={True, False}, SendWhileDisc=True, MaxConns=1, MaxHeld=1, MaxUsed=1,
                 Close=False),
    # ... and packets of the other protocol version, in every state (refused with the identifier released, by send and by checked_send)
    "gate_x": dict(Roles={"client", "server", "any"}, Vers={"v311", "v50"},
                   AppKinds={"publish", "puback", "pubrec", "pubrel", "pubcomp", "subscribe", "suback", "unsubscribe", "unsuback",
                             "pingreq", "pingresp", "disconnect", "auth"},
                   QosSet={0, 1}, Cleans={True}, SendWhileDisc=True, MaxConns=1, MaxHeld=1, MaxUsed=1, Close=False, CrossVersion=True),
    # the application keeps sending between the refusing CONNACK / DISCONNECT (close requested) and notify_closed
    "gate_late": dict(Roles={"server", "any"}, Vers={"v311", "v50"}, AppKinds={"publish", "pingresp", "auth", "puback", "disconnect"},
                      QosSet={0, 1}, Cleans={False}, ConnSEIs={10}, ConnackRcs={0, 135}, LateSends=True, MaxConns=1, MaxHeld=1, MaxUsed=1, Close=True),
    # a second CONNACK on an established connection that holds stored packets (claims a resumed session / refuses)
    "rogue_stored": dict(Vers={"v311", "v50"}, AppKinds={"publish"}, PeerKinds={"puback"}, QosSet={1}, Cleans={False}, ConnSEIs={10},
                         SPs={True, False}, RogueHandshake=True, MaxConns=1, MaxHeld=1, MaxUsed=1),
    # receive gate matrix and version auto-detection (C17)
    "rgate": dict(Roles={"client", "server", "any"}, Vers={"v311", "v50", "undet"},
                  PeerKinds={"publish", "puback", "pubrec", "pubrel", "pubcomp", "subscribe", "suback", "unsubscribe", "unsuback",
                             "pingreq", "pingresp", "disconnect", "auth"},
                  QosSet={0, 1}, PeerWhileDisc=True, RogueHandshake=True, MaxConns=1, MaxHeld=0, Close=False, BadFrames={"connect"}),
    "autodetect": dict(Roles={"server", "any"}, Vers={"undet"}, AppKinds={"publish", "suback", "pingresp", "disconnect"},
                       PeerKinds={"publish", "puback", "subscribe", "pingreq", "disconnect", "auth"}, QosSet={0, 1},
                       ConnRMs={NA, 1}, ConnTAMs={NA, 1}, KAs={0, 10}, OptSets=[set(), {"auto_pub", "auto_ping"}], MaxConns=2, Fire=True),
    # hostile peer (C05)
    "hostile": dict(Roles={"client", "server", "any"}, Vers={"v311", "v50", "undet"},
                    PeerKinds={"publish", "puback", "pubrec", "pubrel", "pubcomp", "suback", "subscribe", "pingreq"},
                    BadFrames={"publish", "puback", "connack", "connect", "subscribe"},
                    QosSet={1, 2}, InPids={0, 1}, ExtraPids={0, 9}, OptSets=[set(), {"auto_pub"}], Garbage=True,
                    ConnTAMs={NA, 0}, ConnRMs={NA, 1}, ConnMPSs={NA, 1}, AckTAMs={NA, 0}, AckMPSs={NA, 1}, PeerWhileDisc=True,
                    MaxConns=2, MaxHeld=0),
    # publishes handed in before the handshake is complete (stored, not yet sent) and acknowledgements that arrive that early
    "early_acks": dict(Roles={"server", "client"}, Vers={"v311", "v50"}, AppKinds={"publish"}, PeerKinds={"puback", "pubrec", "pubcomp"},
                       QosSet={1, 2}, SendWhileDisc=True, PeerWhileDisc=True, ConnRMs={NA, 1}, AckRMs={NA, 1}, ConnSEIs={10}, Cleans={False},
                       OptSets=[set(), {"offline"}], MaxHeld=1, MaxUsed=1, MaxConns=1),
    # identifier extremes through the connection API (register 65535 / 0, then use and complete the exchange)
    "ids_edge": dict(Roles={"client"}, Vers={"v311", "v50"}, AppKinds={"subscribe", "publish"}, PeerKinds={"suback", "puback"}, QosSet={1},
                     IdOps=True, ExtraPids={65535}, MaxHeld=2, MaxUsed=2, MaxConns=1),
    # a server refuses a CONNECT while it holds stored packets of the persistent session
    "refuse_stored": dict(Roles={"server"}, Vers={"v311", "v50"}, AppKinds={"publish"}, PeerKinds={"puback"}, QosSet={1}, MaxConns=2,
                          Cleans={False}, ConnSEIs={10}, SPs={True, False}, ConnackRcs={0, 135}, MaxUsed=1),
    # connection reuse (C10)
    "reuse_c": dict(Roles={"client"}, Vers={"v311", "v50"}, AppKinds={"publish", "subscribe", "disconnect"},
                    PeerKinds={"publish", "suback"}, QosSet={1}, Topics={"t1"}, Aliases={0, 1},
                    KAs={0, 10}, SKAs={NA, 5}, AckRMs={NA, 1}, AckTAMs={NA, 1}, AckMPSs={NA, 13}, ConnTAMs={NA},
                    Cleans={True}, SPs={False}, MaxConns=2, Fire=True, Garbage=True, PartialFrames=True, MaxUsed=1),
    "reuse_c2": dict(Roles={"client", "any"}, Vers={"v311", "v50"}, AppKinds={"publish", "pingreq"},
                    PeerKinds={"publish", "puback", "pubrec"}, QosSet={1, 2}, KAs={0, 10}, ConnTAMs={NA, 1}, ConnRMs={NA, 1},
                    Cleans={False}, ConnSEIs={NA, 10}, SPs={False}, MaxConns=2, RespTimeouts={0, 3}, Fire=True, MaxUsed=1),
    # session state across connections: persistent first session, then every way of starting the next one
    "reuse_sess": dict(Roles={"client"}, Vers={"v311", "v50"}, AppKinds={"publish"}, PeerKinds={"puback", "publish"}, QosSet={1, 2},
                       Cleans={False, True}, ConnSEIs={NA, 10}, SPs={False, True}, ConnRMs={NA, 1}, MaxConns=2, MaxUsed=1, InPids={1}),
    "reuse_s": dict(Roles={"server", "any"}, Vers={"v311", "v50"}, AppKinds={"publish", "disconnect"},
                    PeerKinds={"publish", "subscribe", "disconnect"}, QosSet={2}, Aliases={0, 1},
                    KAs={0, 10}, SKAs={NA, 5}, ConnRMs={NA, 1}, ConnTAMs={NA, 1}, ConnMPSs={NA, 13}, AckTAMs={NA, 1},
                    Cleans={True}, MaxConns=2, Fire=True, PartialFrames=True, MaxUsed=1),
    # export / crash / restore (C16)
    "crash_out": dict(Roles={"client"}, Vers={"v311", "v50"}, AppKinds={"publish", "pubrel"}, PeerKinds=ACKS, QosSet={1, 2}, MaxConns=2,
                      Cleans={False}, SPs={True}, ConnSEIs={10}, AckRMs={NA, 2}, Rcs={0, 128}, Crash=True, Close=False),
    # three exchanges in flight, acknowledged out of order, then the export / crash
    "crash_order": dict(Roles={"client"}, Vers={"v311"}, AppKinds={"publish"}, PeerKinds={"puback"}, QosSet={1}, MaxConns=2,
                        Cleans={False}, SPs={True}, MaxUsed=3, MaxHeld=1, Crash=True, Close=False, Erase=True),
    # an export - also a malformed one - restored into a fresh object, then the session is resumed
    "restore_bad": dict(Roles={"client"}, Vers={"v311", "v50"}, AppKinds={"publish"}, PeerKinds={"puback", "pubrec", "pubcomp"}, QosSet={1},
                        OptSets=[set(), {"auto_pub"}], MaxConns=1, Cleans={False}, SPs={True, False}, ConnSEIs={10}, ExtraPids={1, 2},
                        MaxHeld=1, MaxUsed=3, Restore=True),
    "crash_in": dict(Roles={"client", "server"}, Vers={"v311", "v50"}, AppKinds={"pubrec", "pubcomp"}, PeerKinds={"publish", "pubrel"},
                     QosSet={2}, InPids={1, 2}, MaxConns=2, Cleans={False}, SPs={True}, ConnSEIs={NA, 10}, Crash=True, Close=False, MaxHeld=0,
                     OptSets=[set(), {"auto_pub"}]),
}


# Slices of MC_Pair.tla (two endpoints, C01)
PAIR_DEFAULT = dict(Ver="v311", AutoPub=True, AutoPing=True, KA=0, SRM=NA, CRM=NA, STAM=NA, CTAM=NA, SMPS=NA, CMPS=NA, AutoMap=False,
                    MaxOps=2, MaxLoss=1, MaxFire=0, Ops={"pub0", "pub1", "pub2"}, Sides={"c", "s"}, AliasModes={"none"},
                    Chunks=False, EndpointProps={"C05", "C06", "C07", "C08", "C12", "C13", "C14", "C15", "C19"})
PAIR_SLICES = {
    "pair_v311_auto": dict(),
    "pair_v311_manual": dict(AutoPub=False, AutoPing=False, Ops={"pub1", "pub2", "sub", "ping"}, Sides={"c"}),
    "pair_v311_chunks": dict(Chunks=True, MaxOps=1, Ops={"pub1", "pub2"}),
    "pair_v50_auto": dict(Ver="v50", SRM=1, CRM=2, Ops={"pub1", "pub2"}),
    "pair_v50_manual": dict(Ver="v50", AutoPub=False, SRM=2, Ops={"pub1", "pub2", "unsub"}, Sides={"s"}),
    "pair_v50_alias": dict(Ver="v50", STAM=1, CTAM=1, AliasModes={"none", "bind", "use"}, Ops={"pub0", "pub1"}, MaxOps=3, MaxLoss=1),
    # automatic alias mapping next to a Maximum Packet Size that the aliased QoS>0 PUBLISH (14 bytes) exceeds and the others do not
    "pair_v50_automap": dict(Ver="v50", STAM=1, CTAM=1, SMPS=13, CMPS=13, AutoMap=True, Ops={"pub0", "pub1"}, MaxOps=3, MaxLoss=0),
    "pair_v50_rm3": dict(Ver="v50", SRM=1, CRM=NA, Ops={"pub1", "pub2"}, Sides={"c"}, MaxOps=3, MaxLoss=1),
    "pair_v50_ka": dict(Ver="v50", KA=10, MaxFire=1, AutoPing=False, Ops={"pub1", "ping"}, Chunks=True, MaxOps=1),
}


# liveness configurations of MC_Pair.tla (FairSpec, PROPERTY Terminates, no VIEW, history variables frozen)
PAIR_LIVE = {
    "pair_live_v311": dict(MaxOps=2),
    "pair_live_v311_manual": dict(AutoPub=False, AutoPing=False, Ops={"pub1", "pub2", "sub", "ping"}, Sides={"c"}, MaxOps=2),
    "pair_live_v50": dict(Ver="v50", SRM=1, CRM=2, Ops={"pub1", "pub2"}, MaxOps=2),
    "pair_live_v50_ka": dict(Ver="v50", KA=10, MaxFire=1, AutoPing=False, Ops={"pub1", "ping"}, Chunks=True, MaxOps=1),
}


def pair_cfg_text(name, edges=True):
    d = dict(PAIR_DEFAULT)
    if name in PAIR_LIVE:
        d.update(PAIR_LIVE[name])
        d["Record"] = False
        lines = ["\\* generated by lib/slices.py from pair liveness slice '%s' - do not edit" % name,
                 "SPECIFICATION FairSpec", "CHECK_DEADLOCK FALSE", "PROPERTY Terminates", "CONSTANTS"]
        for k, v in d.items():
            lines.append(" %s = %s" % (k, fmt(v)))
        return "\n".join(lines) + "\n"
    d.update(PAIR_SLICES[name])
    d["Record"] = True
    lines = ["\\* generated by lib/slices.py from pair slice '%s' - do not edit" % name,
             "SPECIFICATION Spec", "VIEW view", "CHECK_DEADLOCK FALSE", "PROPERTY NoViolation"]
    if edges:
        lines.append("ACTION_CONSTRAINT PrintEdge")
    lines.append("CONSTANTS")
    for k, v in d.items():
        lines.append(" %s = %s" % (k, fmt(v)))
    return "\n".join(lines) + "\n"


def fmt(v):
    if isinstance(v, bool):
        return "TRUE" if v else "FALSE"
    if isinstance(v, int):
        return str(v)
    if isinstance(v, str):
        return '"%s"' % v
    if isinstance(v, (set, frozenset, list, tuple)):
        items = sorted(v, key=lambda x: (str(type(x)), str(x))) if not isinstance(v, list) else v
        return "{" + ", ".join(fmt(x) for x in items) + "}"
    raise ValueError(v)


def cfg_text(name, edges=True):
    d = dict(DEFAULT)
    d.update(SLICES[name])
    lines = ["\\* generated by lib/slices.py from slice '%s' - do not edit" % name,
             "SPECIFICATION Spec", "VIEW view", "CHECK_DEADLOCK FALSE"]
    for inv in d["invariants"]:
        lines.append("INVARIANT %s" % inv)
    lines.append("PROPERTY NoViolation")
    if edges:
        lines.append("ACTION_CONSTRAINT PrintEdge")
    lines.append("CONSTANTS")
    for k, v in d.items():
        if k == "invariants":
            continue
        lines.append(" %s = %s" % (k, fmt(v)))
    return "\n".join(lines) + "\n"


def write_all(spec_dir):
    for name in SLICES:
        with open(os.path.join(spec_dir, "MC_%s.cfg" % name), "w") as f:
            f.write(cfg_text(name))
    for name in list(PAIR_SLICES) + list(PAIR_LIVE):
        with open(os.path.join(spec_dir, "MC_%s.cfg" % name), "w") as f:
            f.write(pair_cfg_text(name))


if __name__ == "__main__":
    import sys
    here = os.path.dirname(os.path.dirname(os.path.abspath(__file__)))
    if len(sys.argv) > 2 and sys.argv[1] == "--debug":      # cfgs without edge printing, for spec debugging
        os.makedirs(sys.argv[2], exist_ok=True)
        for name in SLICES:
            open(os.path.join(sys.argv[2], "MC_%s.cfg" % name), "w").write(cfg_text(name, edges=False))
        for name in list(PAIR_SLICES) + list(PAIR_LIVE):
            open(os.path.join(sys.argv[2], "MC_%s.cfg" % name), "w").write(pair_cfg_text(name, edges=False))
        sys.exit(0)
    write_all(os.path.join(here, "spec"))
    print("wrote %d slice configurations" % len(SLICES))
