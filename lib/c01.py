"""C01 - two endpoints built on the library interoperate, even across transport loss.

MC   : MC_Pair.tla composes two Endpoint.tla instances with FIFO channels, chunked delivery, application duties,
       transport loss and persistent-session resumption; TLC checks Pair!ViolC01 and the per-endpoint predicates
       on every transition of several small slices.
S->I : every explored transition (a schedule of {who, call}) is replayed on TWO real objects exchanging the real
       bytes each requests to send; plus seeded random workloads (up to 40 operations, random chunking, up to 4
       losses, Client/Server and Any/Any, u16/u32 ids).
I->S : TLC (Trace_Pair.tla) rebuilds the delivery counters and both endpoint ghosts from the log and evaluates the
       C01 clauses at every node.
"""
import json
import os
import random
import time

import endpoint
import slices
import vlib

PROP = "C01"
QUICK = ["pair_v311_auto", "pair_v311_manual", "pair_v311_chunks", "pair_v50_auto", "pair_v50_manual", "pair_v50_ka", "pair_v50_rm3", "pair_v50_automap"]
THOROUGH = QUICK + ["pair_v50_alias"]
LIVE_QUICK = ["pair_live_v311", "pair_live_v50_ka"]
LIVE_THOROUGH = ["pair_live_v311", "pair_live_v311_manual", "pair_live_v50", "pair_live_v50_ka"]
EP_PROPS = ["C05", "C06", "C07", "C08", "C12", "C13", "C14", "C15", "C19"]


def pattern(n):
    c = n["call"]
    s = "%s %s" % (n.get("who", "?"), c["op"])
    if c["op"] in ("send", "recv"):
        s += " " + c["pkt"]["kind"]
        if c["pkt"]["kind"] == "publish":
            s += " q%d" % c["pkt"]["qos"]
        if c["op"] == "recv" and not c["flag"]:
            s += " partial"
    return s


def judge(trie, wd, workers):
    cfg = os.path.join(wd, "Trace_Pair.cfg")
    with open(cfg, "w") as f:
        f.write("SPECIFICATION Spec\nPOSTCONDITION AllVisited\nCHECK_DEADLOCK FALSE\nCONSTANTS\n EndpointProps = {%s}\n" % ", ".join('"%s"' % x for x in EP_PROPS))
    res = vlib.tlc("Trace_Pair", cfg, wd, workers=workers, xmx="6g", timeout=2400, env={"TRIE": trie}, xss="1g", deque=True)
    txt = open(res["out"], errors="replace").read()
    if not res["completed"] or '<<"UNVISITED"' in txt:
        import sys
        sys.stderr.write("\n".join(txt.splitlines()[-40:]) + "\n")
        raise vlib.ToolError("pair trace validation did not complete")
    return vlib.tagged(res["out"], "VIOL"), res


def main(tier, replay=None):
    t0 = time.time()
    wd = vlib.workdir(PROP)
    binary = vlib.build("conn-harness")
    trie = os.path.join(wd, "trie.ndjson")

    def groups_of(nodes, viols):
        groups, depth = {}, {}
        for nid, clauses in viols:
            for c in clauses:
                if not c.startswith(PROP):
                    continue
                pat = pattern(nodes[nid])
                sig = "%s|%s|%s" % (PROP, c, pat)
                g = groups.setdefault(sig, {"clause": c, "pattern": pat, "count": 0, "example": nid})
                g["count"] += 1
                d = len(vlib.path_to(nodes, nid))
                if d < depth.get(sig, 10 ** 9):
                    depth[sig] = d
                    g["example"] = nid
        return groups

    def make_replay_fn(nodes):
        def mk(nid):
            p = vlib.path_to(nodes, nid)[1:]
            last = nodes[nid]
            return {"harness": "conn-pair", "schedule": {"hist": [{"who": x["who"], "call": x["call"]} for x in p]},
                    "failing_step": {"who": last["who"], "call": last["call"], "out": last["out"], "obs": last["obs"], "quiet": last.get("quiet"),
                                     "panic": last["panic"], "msg": last.get("msg", "")}}
        return mk

    if replay:
        rep = json.load(open(replay))
        sched = os.path.join(wd, "schedule.ndjson")
        with open(sched, "w") as f:
            f.write(json.dumps(rep["schedule"]) + "\n")
        vlib.harness(binary, ["run", "--pair-edges", sched, "--out", trie])
        viols, _ = judge(trie, wd, 2)
        nodes = vlib.load_trie(trie)
        code, nv, nk = vlib.verdict(PROP, groups_of(nodes, viols), make_replay_fn(nodes))
        print("replay: %d calls executed, %d violating nodes" % (len(nodes) - 1, len(viols)))
        return code

    thorough = tier == "thorough"
    names = THOROUGH if thorough else QUICK
    limit = 90000 if thorough else 42000
    slices.write_all(vlib.SPEC)
    rng = random.Random(vlib.seed())
    states = transitions = 0
    per_slice, edge_files = {}, []
    res = vlib.tlc_many("MC_Pair", ["MC_%s.cfg" % n for n in names], wd, parallel=2 if thorough else 4,
                        workers=8 if thorough else 4, xmx="24g" if thorough else "8g", timeout=3000 if thorough else 600)
    # termination ("no endless response loop"): TLC checks <>[]Quiet under weak fairness of delivery / duties / reconnection
    live = LIVE_THOROUGH if thorough else LIVE_QUICK
    lres = vlib.tlc_many("MC_Pair", ["MC_%s.cfg" % n for n in live], wd, parallel=4, workers=4, xmx="8g", timeout=1800)
    live_states = 0
    for n in live:
        lr = lres["MC_%s.cfg" % n]
        if not lr["completed"] or lr["errors"]:
            raise vlib.ToolError("pair liveness slice %s: the specification does not satisfy Terminates: %s" % (n, lr["errors"][:2]))
        live_states += lr["distinct"]
        os.remove(lr["out"])
    extracted, graphs = {}, {}
    for name in names:
        mc = res["MC_%s.cfg" % name]
        if not mc["completed"] or mc["errors"]:
            txt = open(mc["out"], errors="replace").read()
            sv = [l[:600] for l in txt.splitlines() if l.startswith('<<"SPECVIOL"')][:2]
            raise vlib.ToolError("pair slice %s: the specification violates its own properties: %s %s" % (name, mc["errors"][:2], sv))
        graphs[name] = vlib.Graph()
        extracted[name] = vlib.maximal_schedules(mc["out"], graph=graphs[name])
        os.remove(mc["out"])
    shares = vlib.water_fill({n: len(extracted[n][1]) for n in names}, limit)
    # random walks through the explored state graph (histories other than the first one found to each state)
    wshares = vlib.water_fill({n: 2 * extracted[n][0] for n in names}, 20000 if thorough else 4000)
    for name in names:
        total, lines, parent = extracted[name]
        ef = os.path.join(wd, "edges_%s.ndjson" % name)
        kept, covered = vlib.write_schedules(lines, parent, ef, limit=shares[name], rng_seed=rng.randrange(1 << 30))
        wl = graphs[name].walks(wshares[name], random.Random(rng.randrange(1 << 30)))
        # the same schedules with 32-bit packet identifiers / with Any-role objects on both sides
        r2 = random.Random(rng.randrange(1 << 30))
        pool = [l for l in open(ef)]
        variants = [l.replace('"idw":16', '"idw":32') for l in r2.sample(pool, min(len(pool), max(50, len(pool) // 10)))]
        variants += [l.replace('"role":"client"', '"role":"any"').replace('"role":"server"', '"role":"any"')
                     for l in r2.sample(pool, min(len(pool), max(50, len(pool) // 12)))]
        with open(ef, "a") as f:
            for l in wl:
                f.write(l + "\n")
            for l in variants:
                f.write(l if l.endswith("\n") else l + "\n")
        states += res["MC_%s.cfg" % name]["distinct"]
        transitions += total
        per_slice[name] = {"states": res["MC_%s.cfg" % name]["distinct"], "transitions": total, "replayed": covered, "schedules": kept,
                           "maximal_schedules": len(lines), "graph_walks": len(wl), "u32_and_any_role_variants": len(variants)}
        edge_files.append(ef)
    del extracted, graphs
    # one harness process + one Trace_Pair run per slice (and one for the random workloads), side by side: every TLC
    # worker deserialises the whole trie it walks, so several small tries are much cheaper than one big one
    drive_n = "600" if thorough else "60"
    parts = []
    for ef in edge_files:
        pieces = vlib.split_schedules(ef, 6000)
        for k, q in enumerate(pieces):
            parts.append((os.path.basename(ef)[6:-7] + ("" if len(pieces) == 1 else ".%d" % k), ["--pair-edges", q]))
    parts.append(("random", ["--drive-pair", drive_n, "--seed", str(vlib.seed()), "--steps", "40" if thorough else "25"]))

    def do_part(item):
        pname, pargs = item
        pwd = os.path.join(wd, "part_" + pname)
        os.makedirs(pwd, exist_ok=True)
        ptrie = os.path.join(pwd, "trie.ndjson")
        phs = vlib.harness(binary, ["run"] + pargs + ["--out", ptrie], timeout=3000)
        pviols, _ = judge(ptrie, pwd, 4 if thorough else 2)
        pnodes = vlib.load_trie(ptrie)
        if not os.environ.get("VERIF_KEEP"):
            os.remove(ptrie)
        g = groups_of(pnodes, pviols)
        mk = make_replay_fn(pnodes)
        for sig in g:
            g[sig]["example"] = mk(g[sig]["example"])
        qn = sum(1 for n in pnodes[1:] if n.get("quiet"))
        ln = [n["id"] for n in pnodes[1:] if n["call"]["op"] == "closed" and n.get("who") == "c"]
        lv = sum(1 for n in pnodes if not n["kids"] and n["id"] != 0)
        sample = None
        if ln:
            nid = ln[len(ln) // 2]
            sample = [dict(who=x.get("who"), **d) for x, d in zip(vlib.path_to(pnodes, nid)[1:][:18], endpoint.brief_path(pnodes, nid, 18))]
        return pname, phs, pviols, g, qn, len(ln), lv, len(pnodes), sample

    from concurrent.futures import ThreadPoolExecutor
    with ThreadPoolExecutor(max_workers=4 if thorough else 8) as ex:
        results = list(ex.map(do_part, parts))
    groups, viols, hs = {}, [], {"calls": 0, "panics": 0, "ops": {}}
    quiet_n = lossy_n = leaves_n = trie_n = 0
    samples = []
    for pname, phs, pviols, g, qn, ln, lv, nn, sample in results:
        for sig, gg in g.items():
            if sig in groups:
                groups[sig]["count"] += gg["count"]
            else:
                groups[sig] = gg
        viols += pviols
        hs["calls"] += phs.get("calls", 0)
        hs["panics"] += phs.get("panics", 0)
        for k, v in phs.get("ops", {}).items():
            hs["ops"][k] = hs["ops"].get(k, 0) + v
        quiet_n += qn; lossy_n += ln; leaves_n += lv; trie_n += nn
        if len(samples) < 3 and sample:
            samples.append(sample)
    code, nv, nk = vlib.verdict(PROP, groups, lambda ex_: ex_)
    # per-endpoint clauses of other properties observed on the pair runs are reported, not part of this verdict
    other = sorted({c for _, cl in viols for c in cl if not c.startswith(PROP)})
    if other:
        print("NOTE clauses of other properties false on pair runs (judged by their own checks): %s" % other)

    vlib.write_evidence(PROP, tier, "model_checking", {
        "states": states, "transitions": transitions, "traces_validated_against_impl": leaves_n, "samples": samples,
        "exhaustive": False, "evaluations": hs.get("calls", 0), "distinct_nontrivial": quiet_n + lossy_n,
        "rule": ("TLC explores the pair slices %s of MC_Pair.tla exhaustively (<= MaxOps application operations, <= MaxLoss transport losses, all "
                 "interleavings of deliveries, duties and losses); each explored transition is replayed on two real objects exchanging real bytes "
                 "(at most %d per run, sampled by seed) plus %s seeded random workloads. distinct_nontrivial = trie nodes that are quiescent points "
                 "(where the delivery / release / vacancy clauses are evaluated) or transport losses." % (names, limit, drive_n)),
        "liveness": {"property": "Terminates == <>[]Quiet under FairSpec (WF on Deliver, Duty, PendSend, Lose2, ClientConnect)", "configurations": live, "states": live_states},
        "slices": per_slice, "trie_nodes": trie_n, "real_calls": hs.get("calls", 0), "harness_ops": hs.get("ops", {}),
        "quiescent_points": quiet_n, "transport_losses": lossy_n, "library_panics_observed": hs.get("panics", 0),
        "violating_nodes": len([1 for _, cl in viols if any(c.startswith(PROP) for c in cl)]), "known_finding_signatures": nk,
        "checker_cmd": "tlc MC_Pair (%s); conn-harness --pair-edges ... --drive-pair; tlc Trace_Pair" % ",".join(names),
        "repo_head": vlib.repo_head(),
    }, [
        "sessions are persistent and the negotiated limits are the same across resumes (the property's quantifier)",
        "the application answers every duty (CONNACK, SUBACK, PINGRESP, manual PUBACK/PUBREC/PUBREL/PUBCOMP); the PUBREL duty survives a loss",
        "termination: TLC proves <>[]Quiet on the model under weak fairness (pair_live configurations); on the implementation every replayed schedule and every random workload is run to quiescence within a step budget that is never exhausted",
    ], time.time() - t0, nv)
    return code
