"""Regenerates /verif/MANIFEST.json from the table below (run by hand when a check is added)."""
import json
import os

HERE = os.path.dirname(os.path.dirname(os.path.abspath(__file__)))
BASELINE = ("cd /repo && cargo nextest run --workspace --no-fail-fast --tool-config-file pb:/w/lib/nextest.toml --profile pb "
            "--test-threads 8 --offline || cargo test --workspace --no-fail-fast --offline")

EP_TEXT = ("MC_Endpoint.tla/Endpoint.tla (the connection state machine, one action per public call) is model-checked by TLC on "
           "several small slices with the property's predicates (Props.tla) as an action property over every transition. Every explored "
           "transition is a history of public calls that conn-harness replays on the real GenericConnection, together with seeded random "
           "histories; TLC (Trace_Endpoint.tla) then walks the recorded trie, rebuilds the ghost from logged observables only and evaluates "
           "the same predicates at every node (verdict), and runs Endpoint.tla in lock-step (drift report); every history at which "
           "the real object's state departs from the specification's is continued by its whole three-step neighbourhood in the model's "
           "state graph and judged in a second pass.")
EP_NOTE = ("Trusted: Props.tla's reading of the statement (DESIGN.md section 4), the abstraction of packets (fixed encodings), the "
           "verif_state hook for the clauses that say 'state untouched', TLC. Bounded: small alphabets per slice, sampled replay in the quick tier.")
EP_TECH = "TLA+ Endpoint spec + TLC model checking; transition-cover replay into the real connection; TLC trace validation of the recorded trie with ghost-variable predicates"

CHECKS = {
    "C20": dict(cat="model_checking", design="DESIGN.md section 4, C20",
                text="Allocator.tla (interval representation) is model-checked by TLC against the set-of-free-integers semantics for every sub-range of 0..MaxV and every operation sequence (finite, complete). Every explored transition is replayed on the real ValueAllocator at several type placements and, with seeded random long sequences and exhaustion runs, judged by TLC (Trace_Alloc.tla) on answers and on the interval list read through the hook.",
                note="Trusted: Allocator.tla as reference (checked against the free-set semantics only on small ranges, assumed translation-invariant); the verif_intervals hook; TLC.",
                tech="TLA+ spec + TLC exhaustive model check; transition-cover replay into the real allocator; TLC trace validation of the recorded trie"),
    "C09": dict(cat="model_checking", design="DESIGN.md section 4, C09",
                text="Framing.tla (byte-level PacketBuilder state machine) is model-checked by TLC to refine AtomicFraming for every stream of up to N frames and every partition into receive buffers. Every (stream, partition) is fed to the real PacketBuilder::feed and Connection::recv and to a second object frame by frame; TLC (Trace_Framing.tla) judges event equality, one-frame-per-call, no loss/duplication and the 5-byte Remaining Length error, plus seeded random streams of real packets.",
                note="Trusted: Framing.tla/AtomicFraming as reference; event rendering through the library's own Serialize for the real-vs-real comparison; TLC.",
                tech="TLA+ Framing spec + TLC refinement check; replay of every explored chunking into the real code; TLC trace validation; real-vs-real bisimulation"),
}
CODEC_NOTE = ("Trusted: Codec.tla as the OASIS reference (transcribed from the specification texts, checked for internal consistency by TLC: "
              "SizeOf = length of Enc, Remaining Length = body length); the harness's expansion of the reference's run-length segments for the byte comparison; TLC.")
CHECKS["C02"] = dict(cat="model_checking", design="DESIGN.md section 4, C02",
    text="Codec.tla defines the abstract packet domain (29 kinds, 16/32-bit ids, optional fields, properties, lengths on the boundary lattice); TLC enumerates it (pairwise quick, triples thorough), checks the reference for internal consistency and prints one vector per packet. codec-harness builds each with the public builders and records size(), both serialisations, the parse of the body, consumed and the accessor values; TLC (Trace_Codec.tla) recomputes sizes / Remaining Length and judges round-trip equality.",
    note=CODEC_NOTE, tech="TLA+ reference codec + TLC enumeration of the packet domain; vectors replayed through the real builders/parsers; TLC trace validation")
CHECKS["C03"] = dict(cat="model_checking", design="DESIGN.md section 4, C03",
    text="Codec.tla's Enc is an independently written wire-format reference (OASIS MQTT 3.1.1 / 5.0). For every enumerated abstract packet the library's bytes must equal the reference bytes, and the reference bytes fed to the library's parser must give back the abstract field values through the public accessors; judged by TLC (Trace_Codec.tla).",
    note=CODEC_NOTE, tech="TLA+ reference encoder as oracle; TLC-enumerated vectors; two-way comparison with the real codec judged by TLC")
CHECKS["C04"] = dict(cat="exploration", design="DESIGN.md sections 4 and 5, C04",
    text="Codec.tla generates semantic and byte-level mutants of valid encodings of every packet kind (TLC enumerates them) plus exhaustive short strings and seeded random inputs; every input is fed to the real parsers under catch_unwind; for every ACCEPTED input TLC judges size = serialisation length, re-parse equality, consumed <= input and the builder rules (ValidPacket). Panic-freedom is observed on these inputs, not proved.",
    note=CODEC_NOTE + " Totality is an observation over the explored inputs only.", tech="TLA+-generated structured mutation space + exhaustive short strings; real parsers; TLC classification oracle")
CHECKS["C18"] = dict(cat="model_checking", design="DESIGN.md section 4, C18",
    text="Codec.tla holds the MQTT 5.0 property table (Allowed / Repeatable / forbidden values). TLC enumerates the whole finite table (14 locations x 27 properties x occurrence {1,2} x boundary values = 1792 cells, exhaustive in both tiers); for each cell the real builder and the real parser (fed the reference encoding) are asked, and TLC judges each answer against the table and builder = parser.",
    note=CODEC_NOTE, tech="TLA+ property-placement table; exhaustive cell enumeration by TLC; builder and parser answers judged by TLC")
CHECKS["C01"] = dict(cat="model_checking", design="DESIGN.md section 4, C01",
    text="MC_Pair.tla composes two Endpoint.tla instances (client and server connection) with two FIFO channels, chunked delivery, application duties, transport loss at any point and persistent-session resumption; TLC checks the C01 clauses (Pair.tla: no error about the peer, delivery multiplicities per QoS, unchanged topic/payload, everything released at quiescence) and the per-endpoint predicates on every transition of several small slices. Every explored transition is replayed on two real objects exchanging the real bytes they request to send, together with seeded random workloads; TLC (Trace_Pair.tla) rebuilds the delivery counters and both endpoint ghosts from the log and evaluates the clauses at every node.",
    note=EP_NOTE + " Termination: TLC checks the liveness property Terminates (<>[]Quiet) of MC_Pair under weak fairness; on the implementation every replayed schedule / random workload is run to quiescence within a step budget.", tech="TLA+ two-endpoint composition + TLC model checking (safety action property + liveness under fairness); transition-cover replay on two real objects exchanging real bytes, each run on to quiescence; TLC trace validation")
for pid in ("C05", "C06", "C07", "C08", "C10", "C11", "C12", "C13", "C14", "C15", "C16", "C17", "C19"):
    CHECKS[pid] = dict(cat="model_checking", design="DESIGN.md section 4, %s" % pid, text=EP_TEXT, note=EP_NOTE, tech=EP_TECH)
CHECKS["C11"]["text"] += " For C11 every history also runs on a twin object whose packets go through checked_send with their concrete types (selected at compile time where T: Sendable<Role> holds), compared step by step with the object driven through send(); the compile-time acceptance table itself is read off by a trait probe and judged by TLC against the role table."
CHECKS["C11"]["tech"] += "; bisimulation of send() and checked_send() on a twin object; compile-time trait probe"
CHECKS["C10"]["tech"] += "; bisimulation of a reused object against a fresh one"
CHECKS["C16"]["tech"] += "; bisimulation of the original against an object restored from its export"
CHECKS["C17"]["tech"] += "; bisimulation of an undetermined-version server against a fixed-version one"

ENGINE_PROPS = sorted(CHECKS)


def main():
    props = [json.loads(l) for l in open(os.path.join(HERE, "properties.jsonl"))]
    checks = []
    for p in props:
        c = CHECKS.get(p["id"])
        if not c:
            continue
        checks.append({
            "property_id": p["id"],
            "quick_cmd": "./check %s quick" % p["id"],
            "thorough_cmd": "./check %s thorough" % p["id"],
            "evidence_file": "/verif/evidence/%s.json" % p["id"],
            "replay_cmd_template": "./check %s --replay {path}" % p["id"],
            "engine": "tlc",
            "level_claimed": {"category": c["cat"], "text": c["text"], "design_ref": c["design"]},
            "level_note": c["note"],
            "technique": c["tech"],
        })
    hooks_commits = ["9a20b53"]
    m = {
        "version": 1,
        "setup_cmd": "./setup.sh",
        "hooks": {
            "guard": "mqtt_protocol_core_verif",
            "enable": "rustc --cfg mqtt_protocol_core_verif, set in /verif/harness/.cargo/config.toml (build.rustflags); every check rebuilds its harness crate against /repo's working tree",
            "baseline_off_cmd": BASELINE,
            "source_commits": hooks_commits,
            "add_only": True,
        },
        "engines": [
            {"name": "tlc", "path": "/usr/local/bin/tlc", "serves_properties": ENGINE_PROPS,
             "kind_free_text": "TLA+ specifications under /verif/spec model-checked by TLC; recorded behaviours of the real code judged by TLC trace specifications"},
            {"name": "harness", "path": "/verif/harness", "serves_properties": ENGINE_PROPS,
             "kind_free_text": "Rust crates that replay TLC-generated schedules on the real library and record NDJSON tries"},
        ],
        "checks": checks,
        "notes": "Verdict rule: only Level-A property predicates evaluated by TLC over recorded behaviours of the real code produce exit 1; see DESIGN.md section 2.3. Known findings: /verif/known_findings*.json.",
        "not_applicable": [{"property_id": p["id"], "reason": "check under construction in this round; not yet claimed"}
                           for p in props if p["id"] not in CHECKS],
    }
    json.dump(m, open(os.path.join(HERE, "MANIFEST.json"), "w"), indent=1)
    print("MANIFEST: %d checks, %d not yet claimed" % (len(checks), len(m["not_applicable"])))


if __name__ == "__main__":
    main()
