//! Shared pieces of the verification harness: deterministic PRNG, NDJSON trie writer,
//! schedule/edge file reader.
use serde_json::{json, Map, Value};
use std::collections::HashMap;
use std::io::{BufRead, BufWriter, Write};

/// splitmix64: tiny deterministic PRNG (no external crates needed).
#[derive(Clone)]
pub struct Rng(pub u64);
impl Rng {
    pub fn new(seed: u64) -> Self {
        Rng(seed.wrapping_mul(0x9E3779B97F4A7C15).wrapping_add(0xD1B54A32D192ED03))
    }
    pub fn next(&mut self) -> u64 {
        self.0 = self.0.wrapping_add(0x9E3779B97F4A7C15);
        let mut z = self.0;
        z = (z ^ (z >> 30)).wrapping_mul(0xBF58476D1CE4E5B9);
        z = (z ^ (z >> 27)).wrapping_mul(0x94D049BB133111EB);
        z ^ (z >> 31)
    }
    /// uniform in 0..n (n > 0)
    pub fn below(&mut self, n: u64) -> u64 {
        self.next() % n
    }
    pub fn range(&mut self, lo: i64, hi: i64) -> i64 {
        lo + (self.below((hi - lo + 1) as u64) as i64)
    }
    pub fn chance(&mut self, num: u64, den: u64) -> bool {
        self.below(den) < num
    }
    pub fn pick<'a, T>(&mut self, v: &'a [T]) -> &'a T {
        &v[self.below(v.len() as u64) as usize]
    }
}

/// A trie of executed calls. Node 0 is the root. Every node is one NDJSON line:
/// `{"id":..,"parent":..,"kids":[..], ...body}`.
pub struct Trie {
    pub nodes: Vec<(usize, Vec<usize>, Map<String, Value>)>,
    index: HashMap<(usize, String), usize>,
    /// number of times one call prefix produced an outcome different from the recorded one
    pub alternates: usize,
}

impl Trie {
    pub fn new(root_body: Value) -> Self {
        let body = root_body.as_object().cloned().unwrap_or_default();
        Trie {
            nodes: vec![(0, vec![], body)],
            index: HashMap::new(),
            alternates: 0,
        }
    }
    pub fn len(&self) -> usize {
        self.nodes.len()
    }
    pub fn lookup(&self, parent: usize, key: &str) -> Option<usize> {
        self.index.get(&(parent, key.to_string())).copied()
    }
    /// Insert (or find) the child of `parent` identified by `key`. Returns (id, is_new).
    /// When the node already exists, `body` is compared with the stored body and a
    /// mismatch (non-determinism of the code under test) is reported through `Err`.
    pub fn child(&mut self, parent: usize, key: &str, body: Value) -> Result<(usize, bool), String> {
        let body = body.as_object().cloned().unwrap_or_default();
        if let Some(id) = self.lookup(parent, key) {
            if self.nodes[id].2 == body {
                return Ok((id, false));
            }
            // The same call prefix gave a different outcome (the code under test depends on something
            // outside the schedule, e.g. hash iteration order). Both outcomes are kept as sibling
            // branches and judged; the caller can count them through `alternates`.
            self.alternates += 1;
            let mut k = 1;
            loop {
                let alt = format!("{key}#alt{k}");
                match self.lookup(parent, &alt) {
                    Some(aid) if self.nodes[aid].2 == body => return Ok((aid, false)),
                    Some(_) => k += 1,
                    None => {
                        let id = self.nodes.len();
                        self.nodes.push((parent, vec![], body));
                        self.nodes[parent].1.push(id);
                        self.index.insert((parent, alt), id);
                        return Ok((id, true));
                    }
                }
                if k > 64 {
                    return Err(format!("more than 64 different outcomes for one call prefix at node {id}"));
                }
            }
        }
        let id = self.nodes.len();
        self.nodes.push((parent, vec![], body));
        self.nodes[parent].1.push(id);
        self.index.insert((parent, key.to_string()), id);
        Ok((id, true))
    }
    pub fn leaves(&self) -> usize {
        self.nodes.iter().filter(|n| n.1.is_empty()).count()
    }
    pub fn path_to(&self, mut id: usize) -> Vec<usize> {
        let mut p = vec![id];
        while id != 0 {
            id = self.nodes[id].0;
            p.push(id);
        }
        p.reverse();
        p
    }
    pub fn write(&self, path: &str) -> std::io::Result<()> {
        let f = std::fs::File::create(path)?;
        let mut w = BufWriter::new(f);
        for (id, (parent, kids, body)) in self.nodes.iter().enumerate() {
            let mut m = Map::new();
            m.insert("id".into(), json!(id));
            m.insert("parent".into(), json!(parent));
            m.insert("kids".into(), json!(kids));
            for (k, v) in body {
                m.insert(k.clone(), v.clone());
            }
            serde_json::to_writer(&mut w, &Value::Object(m))?;
            w.write_all(b"\n")?;
        }
        w.flush()
    }
}

/// Read an NDJSON file into values (blank lines skipped).
pub fn read_ndjson(path: &str) -> Vec<Value> {
    let f = std::fs::File::open(path).unwrap_or_else(|e| {
        eprintln!("cannot open {path}: {e}");
        std::process::exit(2)
    });
    let mut out = Vec::new();
    for line in std::io::BufReader::new(f).lines() {
        let line = line.unwrap();
        let t = line.trim();
        if t.is_empty() {
            continue;
        }
        match serde_json::from_str::<Value>(t) {
            Ok(v) => out.push(v),
            Err(e) => {
                eprintln!("bad json line in {path}: {e}: {t}");
                std::process::exit(2)
            }
        }
    }
    out
}

/// Simple `--key value` argument lookup.
pub fn arg(args: &[String], key: &str) -> Option<String> {
    args.iter()
        .position(|a| a == key)
        .and_then(|i| args.get(i + 1).cloned())
}

/// Run `f` catching panics; returns Err(message) on panic. The panic hook is silenced by
/// `silence_panics()`.
pub fn catch<R>(f: impl FnOnce() -> R) -> Result<R, String> {
    match std::panic::catch_unwind(std::panic::AssertUnwindSafe(f)) {
        Ok(r) => Ok(r),
        Err(e) => {
            let msg = if let Some(s) = e.downcast_ref::<&str>() {
                s.to_string()
            } else if let Some(s) = e.downcast_ref::<String>() {
                s.clone()
            } else {
                "panic".to_string()
            };
            Err(msg)
        }
    }
}

pub fn silence_panics() {
    std::panic::set_hook(Box::new(|_| {}));
}
