//! Harness for C20 (and the allocator part of C08): executes operation schedules on the real
//! `ValueAllocator<T>` / `PacketIdManager<T>` and records every call, its answer and the
//! free-interval list (hook) as an NDJSON trie that `spec/Trace_Alloc.tla` judges.
//!
//! alloc-harness run [--edges FILE] [--seed S --steps N --runs R] [--exhaust u8|u16] --out TRIE
use mqtt_protocol_core::mqtt::connection::PacketIdManager;
use mqtt_protocol_core::mqtt::ValueAllocator;
use num_traits::{NumCast, PrimInt};
use serde_json::{json, Value};
use std::collections::BTreeSet;
use std::fmt::Debug;
use vcommon::{arg, catch, read_ndjson, silence_panics, Rng, Trie};

trait Alloc {
    fn allocate(&mut self) -> Option<i64>;
    fn first_vacant(&self) -> Option<i64>;
    fn deallocate(&mut self, v: i64);
    fn use_value(&mut self, v: i64) -> bool;
    fn is_used(&self, v: i64) -> bool;
    fn clear(&mut self);
    fn ivs(&self) -> Vec<(i64, i64)>;
}

struct A<T: PrimInt + Debug>(ValueAllocator<T>);

fn cv<T: NumCast>(v: i64) -> T {
    NumCast::from(v).expect("value representable")
}
fn ci<T: NumCast>(v: T) -> i64 {
    NumCast::from(v).expect("fits i64")
}

impl<T: PrimInt + Debug> Alloc for A<T> {
    fn allocate(&mut self) -> Option<i64> {
        self.0.allocate().map(ci)
    }
    fn first_vacant(&self) -> Option<i64> {
        self.0.first_vacant().map(ci)
    }
    fn deallocate(&mut self, v: i64) {
        self.0.deallocate(cv(v))
    }
    fn use_value(&mut self, v: i64) -> bool {
        self.0.use_value(cv(v))
    }
    fn is_used(&self, v: i64) -> bool {
        self.0.is_used(cv(v))
    }
    fn clear(&mut self) {
        self.0.clear()
    }
    fn ivs(&self) -> Vec<(i64, i64)> {
        self.0.verif_intervals().into_iter().map(|(l, h)| (ci(l), ci(h))).collect()
    }
}

/// PacketIdManager seen as an allocator over 1..=MAX (acquire/register/release/is_used_id/clear).
struct Pm16(PacketIdManager<u16>);
struct Pm32(PacketIdManager<u32>);
macro_rules! pm_impl {
    ($t:ty) => {
        impl Alloc for $t {
            fn allocate(&mut self) -> Option<i64> {
                self.0.acquire_unique_id().ok().map(ci)
            }
            fn first_vacant(&self) -> Option<i64> {
                self.0.verif_intervals().first().map(|(l, _)| ci(*l))
            }
            fn deallocate(&mut self, v: i64) {
                self.0.release_id(cv(v))
            }
            fn use_value(&mut self, v: i64) -> bool {
                self.0.register_id(cv(v)).is_ok()
            }
            fn is_used(&self, v: i64) -> bool {
                self.0.is_used_id(cv(v))
            }
            fn clear(&mut self) {
                self.0.clear()
            }
            fn ivs(&self) -> Vec<(i64, i64)> {
                self.0.verif_intervals().into_iter().map(|(l, h)| (ci(l), ci(h))).collect()
            }
        }
    };
}
pm_impl!(Pm16);
pm_impl!(Pm32);

#[derive(Clone, Debug)]
struct Cfg {
    ty: &'static str,
    lo: i64,
    hi: i64,
}

fn type_bounds(ty: &str) -> (i64, i64) {
    match ty {
        "u8" => (0, u8::MAX as i64),
        "i8" => (i8::MIN as i64, i8::MAX as i64),
        "u16" | "pm16" => (0, u16::MAX as i64),
        "i16" => (i16::MIN as i64, i16::MAX as i64),
        "u32" | "pm32" => (0, u32::MAX as i64),
        _ => panic!("type"),
    }
}

fn make(cfg: &Cfg) -> Result<Box<dyn Alloc>, String> {
    let (l, h) = (cfg.lo, cfg.hi);
    catch(move || -> Box<dyn Alloc> {
        match cfg.ty {
            "u8" => Box::new(A(ValueAllocator::<u8>::new(cv(l), cv(h)))),
            "i8" => Box::new(A(ValueAllocator::<i8>::new(cv(l), cv(h)))),
            "u16" => Box::new(A(ValueAllocator::<u16>::new(cv(l), cv(h)))),
            "i16" => Box::new(A(ValueAllocator::<i16>::new(cv(l), cv(h)))),
            "u32" => Box::new(A(ValueAllocator::<u32>::new(cv(l), cv(h)))),
            "pm16" => Box::new(Pm16(PacketIdManager::<u16>::new())),
            "pm32" => Box::new(Pm32(PacketIdManager::<u32>::new())),
            _ => panic!("type"),
        }
    })
}

/// 32-bit types are logged in offset binary (v - 2^31) so that they fit TLC's ints.
fn off(cfg: &Cfg) -> i64 {
    if cfg.ty == "u32" || cfg.ty == "pm32" {
        1i64 << 31
    } else {
        0
    }
}

fn body(cfg: &Cfg, op: &str, v: i64, ok: bool, val: i64, ivs: &[(i64, i64)], panic: Option<String>) -> Value {
    let o = off(cfg);
    json!({
        "op": op, "ty": cfg.ty, "v": v - o, "lo": cfg.lo - o, "hi": cfg.hi - o,
        "ok": ok, "val": if ok && (op == "allocate" || op == "first_vacant") { val - o } else { 0 },
        "ivs": ivs.iter().map(|(l, h)| json!([l - o, h - o])).collect::<Vec<_>>(),
        "panic": panic.is_some(), "msg": panic.unwrap_or_default(),
    })
}

struct Stats {
    calls: u64,
    schedules: u64,
    inapplicable: u64,
    nondet: Vec<String>,
}

/// Execute one schedule (ops in real value space) from a fresh allocator, adding nodes to the trie.
fn execute(trie: &mut Trie, cfg: &Cfg, ops: &[(String, i64)], st: &mut Stats) {
    st.schedules += 1;
    let (tlo, thi) = type_bounds(cfg.ty);
    let o = off(cfg);
    let key = format!("new {} {} {}", cfg.ty, cfg.lo, cfg.hi);
    let mut a = match make(cfg) {
        Ok(a) => a,
        Err(msg) => {
            let b = body(cfg, "new", o, false, 0, &[], Some(msg));
            let _ = trie.child(0, &key, b);
            return;
        }
    };
    st.calls += 1;
    let b = body(cfg, "new", o, true, 0, &a.ivs(), None);
    let mut cur = match trie.child(0, &key, b) {
        Ok((id, _)) => id,
        Err(e) => {
            st.nondet.push(e);
            return;
        }
    };
    let mut used: BTreeSet<i64> = BTreeSet::new();
    for (op, v) in ops {
        let v = *v;
        if matches!(op.as_str(), "use_value" | "is_used" | "deallocate") && (v < tlo || v > thi) {
            st.inapplicable += 1; // value not representable in this type
            return;
        }
        if op == "deallocate" && !(cfg.lo <= v && v <= cfg.hi) {
            st.inapplicable += 1; // contract (asserted by the library): release only values of the range
            return;
        }
        st.calls += 1;
        let res: Result<(bool, i64), String> = match op.as_str() {
            "allocate" => catch(|| a.allocate()).map(|r| (r.is_some(), r.unwrap_or(0))),
            "first_vacant" => catch(|| a.first_vacant()).map(|r| (r.is_some(), r.unwrap_or(0))),
            "use_value" => catch(|| a.use_value(v)).map(|r| (r, 0)),
            "deallocate" => catch(|| a.deallocate(v)).map(|_| (true, 0)),
            "is_used" => catch(|| a.is_used(v)).map(|r| (r, 0)),
            "clear" => catch(|| a.clear()).map(|_| (true, 0)),
            _ => {
                eprintln!("unknown op {op}");
                std::process::exit(2)
            }
        };
        let k = format!("{op} {v}");
        match res {
            Ok((ok, val)) => {
                match op.as_str() {
                    "allocate" if ok => {
                        used.insert(val);
                    }
                    "use_value" if ok => {
                        used.insert(v);
                    }
                    "deallocate" => {
                        used.remove(&v);
                    }
                    "clear" => used.clear(),
                    _ => {}
                }
                let ivs = catch(|| a.ivs()).unwrap_or_default();
                let b = body(cfg, op, if matches!(op.as_str(), "allocate" | "first_vacant" | "clear") { o } else { v }, ok, val, &ivs, None);
                match trie.child(cur, &k, b) {
                    Ok((id, _)) => cur = id,
                    Err(e) => {
                        st.nondet.push(e);
                        return;
                    }
                }
            }
            Err(msg) => {
                let b = body(cfg, op, if matches!(op.as_str(), "allocate" | "first_vacant" | "clear") { o } else { v }, false, 0, &[], Some(msg));
                let _ = trie.child(cur, &k, b);
                return; // object state is unspecified after a panic
            }
        }
    }
}

/// Placements of a TLC schedule (values around 0..MaxV, probes -1 and MaxV+1) into real types.
fn placements(maxv: i64) -> Vec<(&'static str, i64)> {
    vec![
        ("u8", 1),
        ("u8", 0),
        ("u8", 255 - maxv),
        ("u8", 255 - maxv - 1),
        ("i8", -2),
        ("i8", -128),
        ("u16", 1),
        ("u16", 65535 - maxv),
        ("i16", 32767 - maxv),
        ("u32", 1),
        ("u32", 4294967295 - maxv),
        ("u32", (1i64 << 31) - 2),
    ]
}

fn random_schedule(rng: &mut Rng, cfg: &Cfg, steps: usize) -> Vec<(String, i64)> {
    // generated against a private model only to bias choices; validity is re-checked in execute()
    let (tlo, thi) = type_bounds(cfg.ty);
    let mut used: Vec<i64> = Vec::new();
    let mut ops = Vec::new();
    let width = cfg.hi - cfg.lo;
    let near = |rng: &mut Rng, used: &Vec<i64>| -> i64 {
        let c = rng.below(10);
        let v = match c {
            0 => cfg.lo,
            1 => cfg.hi,
            2 => cfg.lo - 1,
            3 => cfg.hi + 1,
            4 => tlo,
            5 => thi,
            6 | 7 if !used.is_empty() => *rng.pick(used) + rng.range(-2, 2),
            _ => cfg.lo + rng.range(0, width.min(40)),
        };
        v.clamp(tlo, thi)
    };
    for _ in 0..steps {
        let c = rng.below(100);
        if c < 28 {
            ops.push(("allocate".to_string(), 0));
            // model: smallest free (only used for biasing later choices)
            let mut x = cfg.lo;
            let mut s = used.clone();
            s.sort();
            for u in s {
                if u == x {
                    x += 1;
                }
            }
            if x <= cfg.hi {
                used.push(x);
            }
        } else if c < 50 {
            let v = near(rng, &used);
            ops.push(("use_value".to_string(), v));
            if v >= cfg.lo && v <= cfg.hi && !used.contains(&v) {
                used.push(v);
            }
        } else if c < 75 {
            if used.is_empty() {
                ops.push(("allocate".to_string(), 0));
                used.push(cfg.lo);
            } else {
                if rng.below(5) == 0 {
                    // a value of the range that may well be free already (releasing it must change nothing)
                    let v = near(rng, &used);
                    if v >= cfg.lo && v <= cfg.hi {
                        used.retain(|x| *x != v);
                        ops.push(("deallocate".to_string(), v));
                    }
                } else {
                    let i = rng.below(used.len() as u64) as usize;
                    let v = used.swap_remove(i);
                    ops.push(("deallocate".to_string(), v));
                }
            }
        } else if c < 90 {
            ops.push(("is_used".to_string(), near(rng, &used)));
        } else if c < 98 {
            ops.push(("first_vacant".to_string(), 0));
        } else {
            ops.push(("clear".to_string(), 0));
            used.clear();
        }
    }
    ops
}

fn main() {
    let args: Vec<String> = std::env::args().collect();
    silence_panics();
    let out = arg(&args, "--out").unwrap_or_else(|| {
        eprintln!("--out required");
        std::process::exit(2)
    });
    let root = Cfg { ty: "u8", lo: 0, hi: 0 };
    let mut trie = Trie::new(body(&root, "root", 0, true, 0, &[], None));
    let mut st = Stats { calls: 0, schedules: 0, inapplicable: 0, nondet: vec![] };

    if let Some(edges) = arg(&args, "--edges") {
        let maxv: i64 = arg(&args, "--maxv").map(|s| s.parse().unwrap()).unwrap_or(4);
        let stride: usize = arg(&args, "--stride").map(|s| s.parse().unwrap()).unwrap_or(1);
        for (i, e) in read_ndjson(&edges).iter().enumerate() {
            let hist = e["hist"].as_array().expect("hist");
            let lo = hist[0]["lo"].as_i64().unwrap();
            let hi = hist[0]["hi"].as_i64().unwrap();
            let pl = placements(maxv);
            for (j, (ty, shift)) in pl.iter().enumerate() {
                // every edge is replayed on u8/shift 1 and u16/shift 1; the other placements by stride
                if j != 0 && j != 6 && (i + j) % stride != 0 {
                    continue;
                }
                let cfg = Cfg { ty, lo: lo + shift, hi: hi + shift };
                let ops: Vec<(String, i64)> = hist[1..]
                    .iter()
                    .map(|o| {
                        let op = o["op"].as_str().unwrap().to_string();
                        let v = o["v"].as_i64().unwrap();
                        let needs = matches!(op.as_str(), "use_value" | "deallocate" | "is_used");
                        (op, if needs { v + shift } else { 0 })
                    })
                    .collect();
                execute(&mut trie, &cfg, &ops, &mut st);
            }
        }
    }

    if let Some(sched) = arg(&args, "--schedule") {
        // replay file: {"cfg":{"ty":..,"lo":..,"hi":..},"ops":[{"op":..,"v":..}]} in real value space
        for e in read_ndjson(&sched) {
            let ty: &'static str = match e["cfg"]["ty"].as_str().unwrap() {
                "u8" => "u8", "i8" => "i8", "u16" => "u16", "i16" => "i16", "u32" => "u32",
                "pm16" => "pm16", "pm32" => "pm32",
                _ => std::process::exit(2),
            };
            let cfg = Cfg { ty, lo: e["cfg"]["lo"].as_i64().unwrap(), hi: e["cfg"]["hi"].as_i64().unwrap() };
            let ops: Vec<(String, i64)> = e["ops"].as_array().unwrap().iter()
                .map(|o| (o["op"].as_str().unwrap().to_string(), o["v"].as_i64().unwrap())).collect();
            execute(&mut trie, &cfg, &ops, &mut st);
        }
    }

    if let Some(seed) = arg(&args, "--seed") {
        let seed: u64 = seed.parse().unwrap_or(0);
        let steps: usize = arg(&args, "--steps").map(|s| s.parse().unwrap()).unwrap_or(500);
        let runs: usize = arg(&args, "--runs").map(|s| s.parse().unwrap()).unwrap_or(2);
        let cfgs = vec![
            Cfg { ty: "u16", lo: 1, hi: 65535 },
            Cfg { ty: "u16", lo: 0, hi: 65535 },
            Cfg { ty: "u16", lo: 65535, hi: 65535 },
            Cfg { ty: "u16", lo: 65500, hi: 65535 },
            Cfg { ty: "u8", lo: 0, hi: 255 },
            Cfg { ty: "u8", lo: 5, hi: 5 },
            Cfg { ty: "u8", lo: 1, hi: 12 },
            Cfg { ty: "i8", lo: -128, hi: 127 },
            Cfg { ty: "i16", lo: -5, hi: 5 },
            Cfg { ty: "u32", lo: 0, hi: u32::MAX as i64 },
            Cfg { ty: "u32", lo: 1, hi: u32::MAX as i64 },
            Cfg { ty: "u32", lo: u32::MAX as i64, hi: u32::MAX as i64 },
            Cfg { ty: "u32", lo: u32::MAX as i64 - 20, hi: u32::MAX as i64 },
            Cfg { ty: "pm16", lo: 1, hi: 65535 },
            Cfg { ty: "pm32", lo: 1, hi: u32::MAX as i64 },
        ];
        let mut rng = Rng::new(seed);
        for r in 0..runs {
            for cfg in &cfgs {
                let n = if cfg.hi - cfg.lo < 16 { steps.min(200) } else { steps };
                let ops = random_schedule(&mut rng, cfg, n + r);
                execute(&mut trie, cfg, &ops, &mut st);
            }
        }
    }

    if let Some(ty) = arg(&args, "--exhaust") {
        // allocate every value, check exhaustion, release one, re-allocate exactly that one
        let (ty, lo, hi): (&'static str, i64, i64) = match ty.as_str() {
            "u8" => ("u8", 0, 255),
            "u16" => ("u16", 0, 65535),
            "pm16" => ("pm16", 1, 65535),
            _ => {
                eprintln!("--exhaust u8|u16|pm16");
                std::process::exit(2)
            }
        };
        let cfg = Cfg { ty, lo, hi };
        let n = (hi - lo + 1) as usize;
        let mut ops: Vec<(String, i64)> = (0..n).map(|_| ("allocate".to_string(), 0)).collect();
        ops.push(("allocate".to_string(), 0));
        ops.push(("first_vacant".to_string(), 0));
        let mid = lo + (hi - lo) / 3;
        ops.push(("deallocate".to_string(), mid));
        ops.push(("is_used".to_string(), mid));
        ops.push(("allocate".to_string(), 0));
        ops.push(("allocate".to_string(), 0));
        ops.push(("deallocate".to_string(), hi));
        ops.push(("deallocate".to_string(), lo));
        ops.push(("use_value".to_string(), hi));
        ops.push(("allocate".to_string(), 0));
        ops.push(("clear".to_string(), 0));
        execute(&mut trie, &cfg, &ops, &mut st);
    }

    if let Err(e) = trie.write(&out) {
        eprintln!("write {out}: {e}");
        std::process::exit(2);
    }
    println!(
        "{}",
        json!({"nodes": trie.len(), "leaves": trie.leaves(), "calls": st.calls, "schedules": st.schedules,
               "inapplicable": st.inapplicable, "nondeterministic": st.nondet})
    );
}
