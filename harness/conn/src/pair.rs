//! Two real objects - a client connection and a server connection - exchanging the real bytes each
//! requests to send (C01). Executes schedules printed by TLC from MC_Pair (`hist` = list of
//! {who, call}) and seeded random workloads; writes one trie node per public call, with `who`.
use crate::model::*;
use crate::obj::*;
use crate::{do_call, obs_or_empty, track_conn, Stats, Track};
use serde_json::{json, Value};
use std::collections::{BTreeSet, VecDeque};
use vcommon::{Rng, Trie};

struct Side {
    conn: Box<dyn Conn>,
    t: Track,
    auto_pub: bool,
    auto_ping: bool,
}

struct Frame {
    pkt: P,
    bytes: Vec<u8>,
    off: usize,
}

pub struct PairRun {
    last_connect: Option<P>,
    last_connack: Option<P>,
    nconn: usize,
    c: Side,
    s: Side,
    c2s: VecDeque<Frame>,
    s2c: VecDeque<Frame>,
    /// application duties (who, kind, pid) derived from the events handed to each application
    duties: BTreeSet<(String, String, i64)>,
    cur: usize,
    dead: bool,
}

fn side<'a>(p: &'a mut PairRun, who: &str) -> &'a mut Side {
    if who == "c" { &mut p.c } else { &mut p.s }
}

impl PairRun {
    fn quiet(&self) -> bool {
        self.c2s.is_empty() && self.s2c.is_empty() && self.duties.is_empty()
            && self.c.t.conn == "connected" && self.s.t.conn == "connected" && !self.c.t.partial && !self.s.t.partial
            && self.c.t.held.is_empty() && self.s.t.held.is_empty()
    }

    fn new_side(call: &Call) -> Side {
        Side { conn: new_conn(&call.role, &call.ver, call.idw), t: Track::new(call), auto_pub: false, auto_ping: false }
    }

    /// Execute one public call on `who`; returns false when the run cannot continue.
    fn step(&mut self, trie: &mut Trie, st: &mut Stats, who: &str, call: &Call, held_pending: bool) -> bool {
        *st.ops.entry(call.op.clone()).or_insert(0) += 1;
        st.calls += 1;
        let mut call = call.clone();
        let mut wire: Option<Vec<u8>> = None;
        let mut consumed_frame = false;
        if call.op == "recv" {
            let q = if who == "c" { &mut self.s2c } else { &mut self.c2s };
            let f = match q.front_mut() {
                Some(f) => f,
                None => {
                    st.inapplicable += 1;
                    return false;
                }
            };
            let rest = &f.bytes[f.off..];
            let take = if call.flag { rest.len() } else { (rest.len() + 1) / 2 };
            if !call.flag && (f.off != 0 || rest.len() < 2) {
                st.inapplicable += 1;
                return false;
            }
            wire = Some(rest[..take].to_vec());
            call.pkt = f.pkt.clone();
            call.pkt.size = f.bytes.len() as i64;
            if call.flag {
                consumed_frame = true;
            } else {
                f.off += take;
            }
        }
        let sd = side(self, who);
        if call.op == "send" && held_pending {
            // the identifier just acquired for this packet
            if let Some(pid) = sd.t.held.last().copied() {
                call.pkt.pid = pid;
            }
        }
        if call.op == "opt" && call.name == "auto_pub" { sd.auto_pub = call.flag; }
        if call.op == "opt" && call.name == "auto_ping" { sd.auto_ping = call.flag; }
        let r = match do_call(&mut sd.conn, &call, &mut sd.t.pidmap, wire.as_deref()) {
            Ok(r) => r,
            Err(_) => {
                st.inapplicable += 1;
                return false;
            }
        };
        let (o, d) = obs_or_empty(&sd.conn);
        track_conn(&mut sd.t, &r.call, &r.out, &o);
        let frames = sd.conn.take_wire();
        let (ap, ag) = (sd.auto_pub, sd.auto_ping);
        if consumed_frame {
            if who == "c" { self.s2c.pop_front(); } else { self.c2s.pop_front(); }
        }
        // transport loss: the client's notify_closed stands for the loss of both directions
        if r.call.op == "closed" {
            self.c2s.clear();
            self.s2c.clear();
            self.duties.retain(|d| d.1 == "pubrel");
        } else {
            for (pkt, bytes) in frames {
                let f = Frame { pkt, bytes, off: 0 };
                if who == "c" { self.c2s.push_back(f) } else { self.s2c.push_back(f) }
            }
        }
        if r.call.op == "send" && r.call.pkt.kind == "connect" && !r.out.iter().any(|e| e.ev == "error") {
            self.last_connect = Some(r.call.pkt.clone());
            self.nconn += 1;
        }
        if r.call.op == "send" && r.call.pkt.kind == "connack" {
            self.last_connack = Some(r.call.pkt.clone());
        }
        if r.call.op == "send" {
            let p = &r.call.pkt;
            self.duties.remove(&(who.to_string(), p.kind.clone(), p.pid));
            if p.kind == "connack" || p.kind == "pingresp" {
                self.duties.remove(&(who.to_string(), p.kind.clone(), 0));
            }
        }
        for e in &r.out {
            if e.ev != "recv" { continue; }
            let k = e.pkt.kind.as_str();
            let d = match k {
                "publish" if e.pkt.qos == 1 && !ap => Some(("puback", e.pkt.pid)),
                "publish" if e.pkt.qos == 2 && !ap => Some(("pubrec", e.pkt.pid)),
                "pubrec" if e.pkt.rc < 128 && !ap => Some(("pubrel", e.pkt.pid)),
                "pubrel" if !ap => Some(("pubcomp", e.pkt.pid)),
                "subscribe" => Some(("suback", e.pkt.pid)),
                "unsubscribe" => Some(("unsuback", e.pkt.pid)),
                "pingreq" if !ag => Some(("pingresp", 0)),
                "connect" => Some(("connack", 0)),
                _ => None,
            };
            if let Some((dk, pid)) = d {
                self.duties.insert((who.to_string(), dk.to_string(), pid));
            }
        }
        if r.panic.is_some() {
            st.panics += 1;
        }
        let quiet = self.quiet() && !held_pending;
        let key = format!("{who}:{}", serde_json::to_string(&r.call).unwrap());
        let mut body = json!({"who": who, "call": r.call, "out": r.out, "obs": o, "dig": d,
                              "panic": r.panic.is_some(), "msg": r.panic.clone().unwrap_or_default(),
                              "shadow": "none", "outF": [], "obsF": o, "panicF": false, "quiet": quiet});
        if body["dig"].is_null() {
            body["dig"] = trie.nodes[self.cur].2.get("dig").cloned().unwrap_or(Value::Null);
        }
        match trie.child(self.cur, &key, body) {
            Ok((id, _)) => self.cur = id,
            Err(e) => {
                st.nondet.push(e);
                return false;
            }
        }
        if r.panic.is_some() {
            self.dead = true;
            return false;
        }
        true
    }
}

fn start(trie: &mut Trie, st: &mut Stats, newc: &Call, news: &Call) -> Option<PairRun> {
    st.schedules += 1;
    let mut run = PairRun { last_connect: None, last_connack: None, nconn: 0,
                            c: PairRun::new_side(newc), s: PairRun::new_side(news), c2s: VecDeque::new(), s2c: VecDeque::new(),
                            duties: BTreeSet::new(), cur: 0, dead: false };
    for (who, call) in [("c", newc), ("s", news)] {
        let sd = side(&mut run, who);
        let (o, d) = obs_or_empty(&sd.conn);
        let key = format!("{who}:{}", serde_json::to_string(call).unwrap());
        let body = json!({"who": who, "call": call, "out": [], "obs": o, "dig": d, "panic": false, "msg": "",
                          "shadow": "none", "outF": [], "obsF": o, "panicF": false, "quiet": false});
        match trie.child(run.cur, &key, body) {
            Ok((id, _)) => run.cur = id,
            Err(e) => {
                st.nondet.push(e);
                return None;
            }
        }
    }
    Some(run)
}

/// hist = [{who, call}, ...] as printed by MC_Pair: the two `new` calls are hist[.. where op = new].
pub fn execute_pair_edge(trie: &mut Trie, e: &Value, st: &mut Stats) {
    let h = match e.get("hist").and_then(|h| h.as_array()) {
        Some(h) => h,
        None => return,
    };
    let mut items: Vec<(String, Call)> = Vec::new();
    for x in h {
        let who = x["who"].as_str().unwrap_or("c").to_string();
        match serde_json::from_value::<Call>(x["call"].clone()) {
            Ok(c) => items.push((who, c)),
            Err(err) => {
                eprintln!("bad pair call: {err}");
                std::process::exit(2);
            }
        }
    }
    let newc = items.iter().find(|(w, c)| w == "c" && c.op == "new").map(|x| x.1.clone());
    let news = items.iter().find(|(w, c)| w == "s" && c.op == "new").map(|x| x.1.clone());
    let (newc, news) = match (newc, news) {
        (Some(a), Some(b)) => (a, b),
        _ => {
            st.inapplicable += 1;
            return;
        }
    };
    let mut run = match start(trie, st, &newc, &news) {
        Some(r) => r,
        None => return,
    };
    let mut prev_acquire: Option<String> = None;
    for (who, call) in items.iter().filter(|(_, c)| c.op != "new") {
        let held_pending = call.op == "send" && prev_acquire.as_deref() == Some(who.as_str())
            && matches!(call.pkt.kind.as_str(), "publish" | "subscribe" | "unsubscribe") && (call.pkt.kind != "publish" || call.pkt.qos > 0);
        if !run.step(trie, st, who, call, held_pending) {
            return;
        }
        prev_acquire = if call.op == "acquire" { Some(who.clone()) } else { None };
    }
    run_to_quiescence(&mut run, trie, st);
}

/// After a replayed schedule: let the exchange run to quiescence (the application answers every duty, every
/// frame in flight is delivered, a lost transport is resumed with the same limits, identifiers acquired but
/// never used are given back), so that the delivery / release / vacancy clauses of C01 are evaluated at the
/// end of EVERY explored history, and an endless response loop shows as an exhausted step budget.
fn run_to_quiescence(run: &mut PairRun, trie: &mut Trie, st: &mut Stats) {
    let ver = match &run.last_connect {
        Some(p) => p.ver.clone(),
        None => return,
    };
    for _ in 0..120 {
        if run.dead || run.quiet() {
            return;
        }
        if run.c.t.close_req || run.s.t.close_req || run.c.t.partial || run.s.t.partial
            || (run.c.t.conn == "disc" && run.c.t.tr) || (run.s.t.conn == "disc" && run.s.t.tr)
        {
            if !(run.step(trie, st, "c", &Call::of("closed"), false) && run.step(trie, st, "s", &Call::of("closed"), false)) {
                return;
            }
            continue;
        }
        for who in ["c", "s"] {
            let held = side(run, who).t.held.clone();
            if let Some(id) = held.first() {
                let mut c = Call::of("release");
                c.id = *id;
                if !run.step(trie, st, who, &c, false) { return; }
            }
        }
        if run.c.t.conn == "disc" && run.s.t.conn != "disc" {
            // the transport is gone for the client: the server's side of it goes too (in-flight bytes are lost)
            if !run.step(trie, st, "s", &Call::of("closed"), false) { return; }
            continue;
        }
        if run.s.t.conn == "disc" && (run.c.t.conn == "connected" || (run.c.t.conn == "connecting" && run.c2s.is_empty())) {
            if !run.step(trie, st, "c", &Call::of("closed"), false) { return; }
            continue;
        }
        if run.c.t.conn == "disc" {
            let mut p = run.last_connect.clone().unwrap();
            p.clean = false;
            let mut c = Call::of("send");
            c.pkt = p;
            if !run.step(trie, st, "c", &c, false) { return; }
            continue;
        }
        if !run.c2s.is_empty() {
            let mut c = Call::of("recv");
            c.flag = true;
            if !run.step(trie, st, "s", &c, false) { return; }
            continue;
        }
        if !run.s2c.is_empty() {
            let mut c = Call::of("recv");
            c.flag = true;
            if !run.step(trie, st, "c", &c, false) { return; }
            continue;
        }
        let duties: Vec<(String, String, i64)> = run.duties.iter().cloned().collect();
        let mut acted = false;
        for (who, kind, pid) in duties {
            let need = if kind == "connack" { "connecting" } else { "connected" };
            if side(run, &who).t.conn != need {
                continue;
            }
            let mut p = P::of(&kind, &ver);
            p.pid = pid;
            if kind == "connack" {
                if let Some(k) = &run.last_connack {
                    p = k.clone();
                    p.rc = 0;
                }
                p.sp = run.nconn > 1;
            }
            let mut c = Call::of("send");
            c.pkt = p;
            if !run.step(trie, st, &who, &c, false) { return; }
            acted = true;
            break;
        }
        if !acted {
            return; // nothing more can happen (e.g. a duty that cannot be answered in this state)
        }
    }
    // step budget exhausted without reaching quiescence: recorded as a non-termination marker node
    let body = json!({"who": "c", "call": Call::of("nontermination"), "out": [], "obs": Value::Null, "dig": Value::Null,
                      "panic": true, "msg": "exchange did not reach quiescence within the step budget", "shadow": "none",
                      "outF": [], "obsF": Value::Null, "panicF": false, "quiet": false});
    let mut b = body;
    b["obs"] = trie.nodes[run.cur].2.get("obs").cloned().unwrap_or(Value::Null);
    b["obsF"] = b["obs"].clone();
    b["dig"] = trie.nodes[run.cur].2.get("dig").cloned().unwrap_or(Value::Null);
    let _ = trie.child(run.cur, "c:nontermination", b);
    st.panics += 1;
}

/// Seeded random two-endpoint workloads: up to `steps` application operations, random chunking,
/// transport losses at arbitrary points (also mid-frame) with persistent-session resumption.
pub fn drive_pair(trie: &mut Trie, st: &mut Stats, n: usize, seed: u64, steps: usize) {
    let mut master = Rng::new(seed ^ 0xc01);
    for _ in 0..n {
        let mut rng = Rng::new(master.next());
        let ver = if rng.chance(1, 2) { "v311" } else { "v50" };
        let idw = if rng.chance(1, 5) { 32 } else { 16 };
        let any = rng.chance(1, 4);
        let mut newc = Call::of("new");
        newc.role = if any { "any".into() } else { "client".into() };
        newc.ver = ver.into();
        newc.idw = idw;
        let mut news = newc.clone();
        news.role = if any { "any".into() } else { "server".into() };
        let mut run = match start(trie, st, &newc, &news) {
            Some(r) => r,
            None => continue,
        };
        let auto_pub = rng.chance(1, 2);
        let auto_ping = rng.chance(1, 2);
        let mut ok = true;
        for who in ["c", "s"] {
            if auto_pub {
                let mut c = Call::of("opt");
                c.name = "auto_pub".into();
                c.flag = true;
                ok &= run.step(trie, st, who, &c, false);
            }
        }
        if auto_ping && ok {
            let mut c = Call::of("opt");
            c.name = "auto_ping".into();
            c.flag = true;
            ok &= run.step(trie, st, "s", &c, false);
        }
        let v5 = ver == "v50";
        let srm = *rng.pick(&[-1i64, 1, 2, 3, 65535]);
        let crm = *rng.pick(&[-1i64, 1, 2, 65535]);
        let stam = *rng.pick(&[-1i64, 0, 1, 2]);
        let ctam = *rng.pick(&[-1i64, 0, 2]);
        let ka = *rng.pick(&[0i64, 0, 10]);
        let mut nconn = 0;
        let mut losses = 0;
        let mut msg = 0u64;
        let mut budget = steps;
        let mut guard = 0usize;
        while ok && !run.dead {
            guard += 1;
            if guard > steps * 40 + 400 {
                // no endless response loop: the exchange must quiesce (C01 termination)
                let body = json!({"who": "c", "call": Call::of("nontermination"), "out": [], "obs": Value::Null, "dig": Value::Null,
                                  "panic": true, "msg": "exchange did not terminate", "shadow": "none", "outF": [], "obsF": Value::Null,
                                  "panicF": false, "quiet": false});
                let _ = body; // recorded through the panic counter; the driver stops here
                st.panics += 1;
                break;
            }
            let down = run.c.t.conn == "disc" && !run.c.t.tr;
            if down {
                if budget == 0 && nconn > 0 { break; }
                // (re)connect: persistent session, same negotiated limits
                let mut p = P::of("connect", ver);
                p.clean = nconn == 0 && v5;
                p.ka = ka;
                if v5 { p.sei = 10; p.rm = crm; p.tam = ctam; }
                let mut c = Call::of("send");
                c.pkt = p;
                ok = run.step(trie, st, "c", &c, false);
                nconn += 1;
                continue;
            }
            // pending duties and deliveries have priority with some probability; otherwise application ops
            let can_deliver = !run.c2s.is_empty() || !run.s2c.is_empty();
            let duties: Vec<(String, String, i64)> = run.duties.iter().cloned().collect();
            let r = rng.below(100);
            if r < 6 && losses < 4 && nconn > 0 && (budget > 0 || can_deliver || !duties.is_empty()) {
                // transport loss at an arbitrary point (possibly with a frame partly delivered)
                losses += 1;
                ok = run.step(trie, st, "c", &Call::of("closed"), false) && run.step(trie, st, "s", &Call::of("closed"), false);
                continue;
            }
            if can_deliver && (r < 55 || (budget == 0 && duties.is_empty())) {
                let dir_c2s = if run.c2s.is_empty() { false } else if run.s2c.is_empty() { true } else { rng.chance(1, 2) };
                let to = if dir_c2s { "s" } else { "c" };
                let (off, len) = { let f = if dir_c2s { run.c2s.front().unwrap() } else { run.s2c.front().unwrap() }; (f.off, f.bytes.len()) };
                let mut c = Call::of("recv");
                c.flag = !(off == 0 && len >= 2 && rng.chance(1, 4));
                ok = run.step(trie, st, to, &c, false);
                continue;
            }
            if !duties.is_empty() && (r < 85 || budget == 0) {
                let (who, kind, pid) = rng.pick(&duties).clone();
                let sd = side(&mut run, &who);
                let need = if kind == "connack" { "connecting" } else { "connected" };
                if sd.t.conn != need {
                    if !can_deliver { run.duties.remove(&(who, kind, pid)); }
                    continue;
                }
                let mut p = P::of(&kind, ver);
                p.pid = pid;
                if kind == "connack" {
                    p.sp = nconn > 1;
                    if v5 { p.rm = srm; p.tam = stam; }
                }
                let mut c = Call::of("send");
                c.pkt = p;
                ok = run.step(trie, st, &who, &c, false);
                continue;
            }
            if budget == 0 {
                if !can_deliver && duties.is_empty() { break; }
                continue;
            }
            // application operation, once the client has seen CONNACK
            if run.c.t.conn != "connected" || run.s.t.conn != "connected" {
                if !can_deliver && duties.is_empty() { break; }
                continue;
            }
            budget -= 1;
            let who = if rng.chance(1, 2) { "c" } else { "s" };
            let o = rng.below(10);
            if o < 7 {
                let qos = rng.range(0, 2);
                let mut p = P::of("publish", ver);
                p.qos = qos;
                p.topic = rng.pick(&["t1", "t2"]).to_string();
                msg += 1;
                p.msg = format!("m{msg}");
                if v5 {
                    let sd = side(&mut run, who);
                    let tam = sd.t.peer_tam;
                    if tam >= 1 && rng.chance(1, 3) {
                        p.alias = rng.range(1, tam);
                    }
                }
                if qos > 0 {
                    ok = run.step(trie, st, who, &Call::of("acquire"), false);
                    if !ok { break; }
                    let mut c = Call::of("send");
                    c.pkt = p;
                    ok = run.step(trie, st, who, &c, true);
                } else {
                    let mut c = Call::of("send");
                    c.pkt = p;
                    ok = run.step(trie, st, who, &c, false);
                }
            } else if o < 9 {
                ok = run.step(trie, st, "c", &Call::of("acquire"), false);
                if !ok { break; }
                let mut c = Call::of("send");
                c.pkt = P::of(if rng.chance(1, 2) { "subscribe" } else { "unsubscribe" }, ver);
                ok = run.step(trie, st, "c", &c, true);
            } else {
                let mut c = Call::of("send");
                c.pkt = P::of("pingreq", ver);
                ok = run.step(trie, st, "c", &c, false);
            }
        }
    }
}
