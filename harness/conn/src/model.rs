//! Abstract (uniform-shape) packets, events and calls shared with spec/Endpoint.tla and spec/Props.tla,
//! and the two-way mapping to the library's concrete packets (public builders / accessors only).
use mqtt_protocol_core::mqtt;
use mqtt_protocol_core::mqtt::packet::{GenericPacket, GenericStorePacket, Property, Qos};
use mqtt_protocol_core::mqtt::prelude::GenericPacketTrait;
use serde::{Deserialize, Serialize};

#[derive(Clone, Debug, PartialEq, Serialize, Deserialize)]
pub struct P {
    pub kind: String,
    pub ver: String,
    pub pid: i64,
    pub qos: i64,
    pub dup: bool,
    pub retain: bool,
    pub topic: String,
    pub alias: i64,
    pub msg: String,
    pub rc: i64,
    pub sp: bool,
    pub clean: bool,
    pub ka: i64,
    pub rm: i64,
    pub tam: i64,
    pub mps: i64,
    pub sei: i64,
    pub ska: i64,
    pub size: i64,
    pub bad: String,
}

impl P {
    pub fn none() -> P {
        P {
            kind: "none".into(), ver: "none".into(), pid: 0, qos: 0, dup: false, retain: false,
            topic: "".into(), alias: 0, msg: "".into(), rc: 0, sp: false, clean: false, ka: 0,
            rm: -1, tam: -1, mps: -1, sei: -1, ska: -1, size: 0, bad: "".into(),
        }
    }
    pub fn of(kind: &str, ver: &str) -> P {
        let mut p = P::none();
        p.kind = kind.into();
        p.ver = ver.into();
        p
    }
}

#[derive(Clone, Debug, PartialEq, Serialize, Deserialize)]
pub struct E {
    pub ev: String,
    pub pkt: P,
    pub rel: i64,
    pub id: i64,
    pub k: String,
    pub ms: i64,
    pub err: String,
}

impl E {
    pub fn of(ev: &str) -> E {
        E { ev: ev.into(), pkt: P::none(), rel: 0, id: 0, k: "".into(), ms: 0, err: "".into() }
    }
}

#[derive(Clone, Debug, PartialEq, Serialize, Deserialize)]
pub struct Call {
    pub op: String,
    pub pkt: P,
    #[serde(default)]
    pub pkts: Vec<P>,
    #[serde(default)]
    pub ids: Vec<i64>,
    pub k: String,
    pub id: i64,
    pub val: i64,
    pub flag: bool,
    pub name: String,
    pub role: String,
    pub ver: String,
    pub idw: i64,
    pub ok: bool,
}

impl Call {
    pub fn of(op: &str) -> Call {
        Call {
            op: op.into(), pkt: P::none(), pkts: vec![], ids: vec![], k: "".into(), id: 0, val: 0,
            flag: false, name: "".into(), role: "".into(), ver: "".into(), idw: 16, ok: true,
        }
    }
}

pub fn timer_name(k: mqtt::connection::TimerKind) -> &'static str {
    match k {
        mqtt::connection::TimerKind::PingreqSend => "pingreq_send",
        mqtt::connection::TimerKind::PingreqRecv => "pingreq_recv",
        mqtt::connection::TimerKind::PingrespRecv => "pingresp_recv",
    }
}

pub fn timer_kind(k: &str) -> mqtt::connection::TimerKind {
    match k {
        "pingreq_send" => mqtt::connection::TimerKind::PingreqSend,
        "pingreq_recv" => mqtt::connection::TimerKind::PingreqRecv,
        _ => mqtt::connection::TimerKind::PingrespRecv,
    }
}

fn qos_of(q: i64) -> Qos {
    match q {
        0 => Qos::AtMostOnce,
        1 => Qos::AtLeastOnce,
        _ => Qos::ExactlyOnce,
    }
}
fn qos_num(q: Qos) -> i64 {
    match q {
        Qos::AtMostOnce => 0,
        Qos::AtLeastOnce => 1,
        Qos::ExactlyOnce => 2,
    }
}

fn conn_props(p: &P) -> Vec<Property> {
    let mut v: Vec<Property> = Vec::new();
    if p.sei >= 0 {
        v.push(mqtt::packet::SessionExpiryInterval::new(p.sei as u32).unwrap().into());
    }
    if p.rm >= 0 {
        if let Ok(x) = mqtt::packet::ReceiveMaximum::new(p.rm as u16) {
            v.push(x.into());
        }
    }
    if p.mps >= 0 {
        if let Ok(x) = mqtt::packet::MaximumPacketSize::new(p.mps as u32) {
            v.push(x.into());
        }
    }
    if p.tam >= 0 {
        v.push(mqtt::packet::TopicAliasMaximum::new(p.tam as u16).unwrap().into());
    }
    if p.ska >= 0 {
        v.push(mqtt::packet::ServerKeepAlive::new(p.ska as u16).unwrap().into());
    }
    v
}

fn read_props(props: &[Property], p: &mut P) {
    for pr in props {
        match pr {
            Property::SessionExpiryInterval(x) => p.sei = x.val() as i64,
            Property::ReceiveMaximum(x) => p.rm = x.val() as i64,
            Property::MaximumPacketSize(x) => p.mps = x.val() as i64,
            Property::TopicAliasMaximum(x) => p.tam = x.val() as i64,
            Property::ServerKeepAlive(x) => p.ska = x.val() as i64,
            Property::TopicAlias(x) => p.alias = x.val() as i64,
            _ => {}
        }
    }
}

macro_rules! rc_try {
    ($t:ty, $v:expr) => {
        <$t>::try_from($v as u8).map_err(|_| format!("unbuildable: reason code {}", $v))?
    };
}

/// Instantiates the abstract <-> concrete mapping for one packet-identifier type.
macro_rules! mapping {
    ($modname:ident, $T:ty) => {
        pub mod $modname {
            use super::*;
            use mqtt::packet::v3_1_1 as v3;
            use mqtt::packet::v5_0 as v5;
            use mqtt::result_code as rcode;

            pub fn build(p: &P) -> Result<GenericPacket<$T>, String> {
                let e = |x: mqtt::result_code::MqttError| format!("unbuildable: {:?}", x);
                let pid = p.pid as $T;
                let v5p = p.ver == "v50";
                Ok(match (p.kind.as_str(), v5p) {
                    ("connect", false) => v3::Connect::builder().client_id("c").map_err(e)?
                        .clean_session(p.clean).keep_alive(p.ka as u16).build().map_err(e)?.into(),
                    ("connect", true) => {
                        let mut b = v5::Connect::builder().client_id("c").map_err(e)?
                            .clean_start(p.clean).keep_alive(p.ka as u16);
                        let pr = conn_props(p);
                        if !pr.is_empty() { b = b.props(pr); }
                        b.build().map_err(e)?.into()
                    }
                    ("connack", false) => v3::Connack::builder().session_present(p.sp)
                        .return_code(rc_try!(rcode::ConnectReturnCode, p.rc)).build().map_err(e)?.into(),
                    ("connack", true) => {
                        let mut b = v5::Connack::builder().session_present(p.sp)
                            .reason_code(rc_try!(rcode::ConnectReasonCode, p.rc));
                        let pr = conn_props(p);
                        if !pr.is_empty() { b = b.props(pr); }
                        b.build().map_err(e)?.into()
                    }
                    ("publish", false) => {
                        let mut b = v3::GenericPublish::<$T>::builder().topic_name(p.topic.as_str()).map_err(e)?
                            .qos(qos_of(p.qos)).dup(p.dup).retain(p.retain).payload(p.msg.as_bytes().to_vec());
                        if p.qos > 0 { b = b.packet_id(pid); }
                        b.build().map_err(e)?.into()
                    }
                    ("publish", true) => {
                        let mut b = v5::GenericPublish::<$T>::builder().topic_name(p.topic.as_str()).map_err(e)?
                            .qos(qos_of(p.qos)).dup(p.dup).retain(p.retain).payload(p.msg.as_bytes().to_vec());
                        if p.qos > 0 { b = b.packet_id(pid); }
                        if p.alias > 0 {
                            b = b.props(vec![mqtt::packet::TopicAlias::new(p.alias as u16).map_err(e)?.into()]);
                        }
                        b.build().map_err(e)?.into()
                    }
                    ("puback", false) => v3::GenericPuback::<$T>::builder().packet_id(pid).build().map_err(e)?.into(),
                    ("pubrec", false) => v3::GenericPubrec::<$T>::builder().packet_id(pid).build().map_err(e)?.into(),
                    ("pubrel", false) => v3::GenericPubrel::<$T>::builder().packet_id(pid).build().map_err(e)?.into(),
                    ("pubcomp", false) => v3::GenericPubcomp::<$T>::builder().packet_id(pid).build().map_err(e)?.into(),
                    ("puback", true) => {
                        let mut b = v5::GenericPuback::<$T>::builder().packet_id(pid);
                        if p.rc != 0 { b = b.reason_code(rc_try!(rcode::PubackReasonCode, p.rc)); }
                        b.build().map_err(e)?.into()
                    }
                    ("pubrec", true) => {
                        let mut b = v5::GenericPubrec::<$T>::builder().packet_id(pid);
                        if p.rc != 0 { b = b.reason_code(rc_try!(rcode::PubrecReasonCode, p.rc)); }
                        b.build().map_err(e)?.into()
                    }
                    ("pubrel", true) => {
                        let mut b = v5::GenericPubrel::<$T>::builder().packet_id(pid);
                        if p.rc != 0 { b = b.reason_code(rc_try!(rcode::PubrelReasonCode, p.rc)); }
                        b.build().map_err(e)?.into()
                    }
                    ("pubcomp", true) => {
                        let mut b = v5::GenericPubcomp::<$T>::builder().packet_id(pid);
                        if p.rc != 0 { b = b.reason_code(rc_try!(rcode::PubcompReasonCode, p.rc)); }
                        b.build().map_err(e)?.into()
                    }
                    ("subscribe", false) => v3::GenericSubscribe::<$T>::builder().packet_id(pid)
                        .entries(vec![mqtt::packet::SubEntry::new("t1", mqtt::packet::SubOpts::default()).map_err(e)?])
                        .build().map_err(e)?.into(),
                    ("subscribe", true) => v5::GenericSubscribe::<$T>::builder().packet_id(pid)
                        .entries(vec![mqtt::packet::SubEntry::new("t1", mqtt::packet::SubOpts::default()).map_err(e)?])
                        .build().map_err(e)?.into(),
                    ("suback", false) => v3::GenericSuback::<$T>::builder().packet_id(pid)
                        .return_codes(vec![rcode::SubackReturnCode::SuccessMaximumQos0]).build().map_err(e)?.into(),
                    ("suback", true) => v5::GenericSuback::<$T>::builder().packet_id(pid)
                        .reason_codes(vec![rcode::SubackReasonCode::GrantedQos0]).build().map_err(e)?.into(),
                    ("unsubscribe", false) => v3::GenericUnsubscribe::<$T>::builder().packet_id(pid)
                        .entries(vec!["t1"]).map_err(e)?.build().map_err(e)?.into(),
                    ("unsubscribe", true) => v5::GenericUnsubscribe::<$T>::builder().packet_id(pid)
                        .entries(vec!["t1"]).map_err(e)?.build().map_err(e)?.into(),
                    ("unsuback", false) => v3::GenericUnsuback::<$T>::builder().packet_id(pid).build().map_err(e)?.into(),
                    ("unsuback", true) => v5::GenericUnsuback::<$T>::builder().packet_id(pid)
                        .reason_codes(vec![rcode::UnsubackReasonCode::Success]).build().map_err(e)?.into(),
                    ("pingreq", false) => v3::Pingreq::builder().build().map_err(e)?.into(),
                    ("pingreq", true) => v5::Pingreq::builder().build().map_err(e)?.into(),
                    ("pingresp", false) => v3::Pingresp::builder().build().map_err(e)?.into(),
                    ("pingresp", true) => v5::Pingresp::builder().build().map_err(e)?.into(),
                    ("disconnect", false) => v3::Disconnect::builder().build().map_err(e)?.into(),
                    ("disconnect", true) => {
                        let mut b = v5::Disconnect::builder();
                        if p.rc != 0 { b = b.reason_code(rc_try!(rcode::DisconnectReasonCode, p.rc)); }
                        b.build().map_err(e)?.into()
                    }
                    ("auth", true) => v5::Auth::builder().build().map_err(e)?.into(),
                    _ => return Err(format!("unbuildable: kind {} {}", p.kind, p.ver)),
                })
            }

            pub fn abs(pk: &GenericPacket<$T>) -> P {
                let mut p = P::none();
                p.size = pk.size() as i64;
                macro_rules! ack3 { ($k:expr, $x:expr) => {{ p.kind = $k.into(); p.ver = "v311".into(); p.pid = $x.packet_id() as i64; }}; }
                macro_rules! ack5 { ($k:expr, $x:expr) => {{ p.kind = $k.into(); p.ver = "v50".into(); p.pid = $x.packet_id() as i64;
                    p.rc = $x.reason_code().map(|r| r as u8 as i64).unwrap_or(0); }}; }
                match pk {
                    GenericPacket::V3_1_1Connect(x) => { p.kind = "connect".into(); p.ver = "v311".into(); p.clean = x.clean_session(); p.ka = x.keep_alive() as i64; }
                    GenericPacket::V5_0Connect(x) => { p.kind = "connect".into(); p.ver = "v50".into(); p.clean = x.clean_start(); p.ka = x.keep_alive() as i64; read_props(x.props(), &mut p); }
                    GenericPacket::V3_1_1Connack(x) => { p.kind = "connack".into(); p.ver = "v311".into(); p.sp = x.session_present(); p.rc = x.return_code() as u8 as i64; }
                    GenericPacket::V5_0Connack(x) => { p.kind = "connack".into(); p.ver = "v50".into(); p.sp = x.session_present(); p.rc = x.reason_code() as u8 as i64; read_props(x.props(), &mut p); }
                    GenericPacket::V3_1_1Publish(x) => { p.kind = "publish".into(); p.ver = "v311".into(); p.pid = x.packet_id().map(|v| v as i64).unwrap_or(0);
                        p.qos = qos_num(x.qos()); p.dup = x.dup(); p.retain = x.retain(); p.topic = x.topic_name().to_string();
                        p.msg = String::from_utf8_lossy(x.payload().as_slice()).to_string(); }
                    GenericPacket::V5_0Publish(x) => { p.kind = "publish".into(); p.ver = "v50".into(); p.pid = x.packet_id().map(|v| v as i64).unwrap_or(0);
                        p.qos = qos_num(x.qos()); p.dup = x.dup(); p.retain = x.retain(); p.topic = x.topic_name().to_string();
                        p.msg = String::from_utf8_lossy(x.payload().as_slice()).to_string(); read_props(x.props(), &mut p); }
                    GenericPacket::V3_1_1Puback(x) => ack3!("puback", x),
                    GenericPacket::V3_1_1Pubrec(x) => ack3!("pubrec", x),
                    GenericPacket::V3_1_1Pubrel(x) => ack3!("pubrel", x),
                    GenericPacket::V3_1_1Pubcomp(x) => ack3!("pubcomp", x),
                    GenericPacket::V5_0Puback(x) => ack5!("puback", x),
                    GenericPacket::V5_0Pubrec(x) => ack5!("pubrec", x),
                    GenericPacket::V5_0Pubrel(x) => ack5!("pubrel", x),
                    GenericPacket::V5_0Pubcomp(x) => ack5!("pubcomp", x),
                    GenericPacket::V3_1_1Subscribe(x) => ack3!("subscribe", x),
                    GenericPacket::V3_1_1Suback(x) => ack3!("suback", x),
                    GenericPacket::V3_1_1Unsubscribe(x) => ack3!("unsubscribe", x),
                    GenericPacket::V3_1_1Unsuback(x) => ack3!("unsuback", x),
                    GenericPacket::V5_0Subscribe(x) => { p.kind = "subscribe".into(); p.ver = "v50".into(); p.pid = x.packet_id() as i64; }
                    GenericPacket::V5_0Suback(x) => { p.kind = "suback".into(); p.ver = "v50".into(); p.pid = x.packet_id() as i64; }
                    GenericPacket::V5_0Unsubscribe(x) => { p.kind = "unsubscribe".into(); p.ver = "v50".into(); p.pid = x.packet_id() as i64; }
                    GenericPacket::V5_0Unsuback(x) => { p.kind = "unsuback".into(); p.ver = "v50".into(); p.pid = x.packet_id() as i64; }
                    GenericPacket::V3_1_1Pingreq(_) => { p.kind = "pingreq".into(); p.ver = "v311".into(); }
                    GenericPacket::V5_0Pingreq(_) => { p.kind = "pingreq".into(); p.ver = "v50".into(); }
                    GenericPacket::V3_1_1Pingresp(_) => { p.kind = "pingresp".into(); p.ver = "v311".into(); }
                    GenericPacket::V5_0Pingresp(_) => { p.kind = "pingresp".into(); p.ver = "v50".into(); }
                    GenericPacket::V3_1_1Disconnect(_) => { p.kind = "disconnect".into(); p.ver = "v311".into(); }
                    GenericPacket::V5_0Disconnect(x) => { p.kind = "disconnect".into(); p.ver = "v50".into(); p.rc = x.reason_code().map(|r| r as u8 as i64).unwrap_or(0); }
                    GenericPacket::V5_0Auth(x) => { p.kind = "auth".into(); p.ver = "v50".into(); p.rc = x.reason_code().map(|r| r as u8 as i64).unwrap_or(0); }
                }
                p
            }

            pub fn abs_store(sp: &GenericStorePacket<$T>) -> P {
                let g: GenericPacket<$T> = sp.clone().into();
                abs(&g)
            }

            pub fn to_store(p: &P) -> Result<GenericStorePacket<$T>, String> {
                // built through the enum variants directly so that malformed exports (QoS 0 entries)
                // can be handed to restore_packets as the property's quantifier asks
                match build(p)? {
                    GenericPacket::V3_1_1Publish(x) => Ok(GenericStorePacket::V3_1_1Publish(x)),
                    GenericPacket::V5_0Publish(x) => Ok(GenericStorePacket::V5_0Publish(x)),
                    GenericPacket::V3_1_1Pubrel(x) => Ok(GenericStorePacket::V3_1_1Pubrel(x)),
                    GenericPacket::V5_0Pubrel(x) => Ok(GenericStorePacket::V5_0Pubrel(x)),
                    _ => Err("unbuildable: not a store packet".to_string()),
                }
            }
        }
    };
}

mapping!(m16, u16);
mapping!(m32, u32);

/// Hand-written wire encoder for peer frames the public builders refuse (identifier 0, ...).
/// Independent of the library; only the small alphabet the checks use.
pub fn raw_encode(p: &P, idw: i64) -> Option<Vec<u8>> {
    let v5 = p.ver == "v50";
    let pid = |b: &mut Vec<u8>| {
        if idw == 32 {
            b.extend_from_slice(&(p.pid as u32).to_be_bytes());
        } else {
            b.extend_from_slice(&(p.pid as u16).to_be_bytes());
        }
    };
    let mut body: Vec<u8> = Vec::new();
    let first: u8;
    match p.kind.as_str() {
        "publish" => {
            first = 0x30 | ((p.dup as u8) << 3) | ((p.qos as u8 & 3) << 1) | (p.retain as u8);
            body.extend_from_slice(&(p.topic.len() as u16).to_be_bytes());
            body.extend_from_slice(p.topic.as_bytes());
            if p.qos > 0 {
                pid(&mut body);
            }
            if v5 {
                if p.alias > 0 {
                    body.push(3);
                    body.push(0x23);
                    body.extend_from_slice(&(p.alias as u16).to_be_bytes());
                } else {
                    body.push(0);
                }
            }
            body.extend_from_slice(p.msg.as_bytes());
        }
        "puback" | "pubrec" | "pubrel" | "pubcomp" => {
            first = match p.kind.as_str() {
                "puback" => 0x40,
                "pubrec" => 0x50,
                "pubrel" => 0x62,
                _ => 0x70,
            };
            pid(&mut body);
            if v5 && p.rc != 0 {
                body.push(p.rc as u8);
            }
        }
        "subscribe" => {
            first = 0x82;
            pid(&mut body);
            if v5 {
                body.push(0);
            }
            body.extend_from_slice(&[0, 2, b't', b'1', 0]);
        }
        "unsubscribe" => {
            first = 0xA2;
            pid(&mut body);
            if v5 {
                body.push(0);
            }
            body.extend_from_slice(&[0, 2, b't', b'1']);
        }
        "suback" => {
            first = 0x90;
            pid(&mut body);
            if v5 {
                body.push(0);
            }
            body.push(0);
        }
        "unsuback" => {
            first = 0xB0;
            pid(&mut body);
            if v5 {
                body.push(0);
                body.push(0);
            }
        }
        "garbage" => {
            first = 0x00;
        }
        _ => return None,
    }
    let mut out = vec![first];
    let mut n = body.len();
    loop {
        let mut b = (n % 128) as u8;
        n /= 128;
        if n > 0 {
            b |= 0x80;
        }
        out.push(b);
        if n == 0 {
            break;
        }
    }
    out.extend_from_slice(&body);
    Some(out)
}

/// Make a valid single frame unparsable while keeping it one well-framed packet.
/// PUBLISH / CONNECT: the first length-prefixed field claims 65535 bytes; every other kind keeps only the
/// first byte of its body (an identifier cut in half, a CONNACK without return code, ...).
pub fn corrupt(frame: &[u8]) -> Vec<u8> {
    let rl = frame[1] as usize;
    if !(frame.len() == 2 + rl && rl < 127 && rl >= 2) {
        return frame.to_vec(); // only single-byte remaining lengths are used by the checks' alphabets
    }
    let nib = frame[0] >> 4;
    if nib == 3 || nib == 1 {
        let mut v = frame.to_vec();
        v[2] = 0xFF;
        v[3] = 0xFF;
        v
    } else {
        vec![frame[0], 1, frame[2]]
    }
}
