//! Seeded random driver (I->S): contract-respecting random histories of public calls with value
//! ranges and lengths the exhaustive model constants cannot reach (large identifiers' worth of
//! traffic, many connections, all roles / versions / id widths, every option). Choices are made
//! against what the REAL object returned so far (Track), so the environment contract of the
//! properties holds by construction: identifiers come from acquire, a QoS>0 PUBLISH uses a freshly
//! acquired identifier, PUBREL is sent only for an exchange whose PUBREC arrived, timers fire only
//! when armed, after a close request (or a cut frame) only notify_closed follows.
use crate::model::*;
use crate::{execute_from, Source, Stats, Track};
use std::collections::VecDeque;
use vcommon::{Rng, Trie};

struct Driver {
    rng: Rng,
    steps: usize,
    profile: String,
    first: Call,
    setup: VecDeque<Call>,
    pending: VecDeque<Call>,
    want_publish: Option<(i64, String, i64)>, // (qos, topic, alias) waiting for its acquire
    want_sub: Option<String>,
    msg: u64,
}

fn pick<'a, T>(rng: &mut Rng, v: &'a [T]) -> &'a T {
    &v[rng.below(v.len() as u64) as usize]
}

impl Driver {
    fn hostile(&self) -> bool {
        self.profile == "hostile"
    }
    fn w(&self, names: &[&str], base: u64, boosted: u64) -> u64 {
        if names.contains(&self.profile.as_str()) {
            boosted
        } else {
            base
        }
    }

    fn ver(&self, t: &Track) -> String {
        if t.ver == "undet" {
            "v311".into()
        } else {
            t.ver.clone()
        }
    }

    fn connect_pkt(&mut self, ver: &str) -> P {
        let r = &mut self.rng;
        let mut p = P::of("connect", ver);
        p.clean = r.chance(1, 2);
        p.ka = *pick(r, &[0, 0, 5, 10, 65535]);
        if ver == "v50" {
            p.rm = *pick(r, &[-1, -1, 1, 2, 3, 65535]);
            p.tam = *pick(r, &[-1, -1, 0, 1, 2, 3]);
            p.mps = *pick(r, &[-1, -1, -1, 4, 9, 12, 16, 100]);
            p.sei = *pick(r, &[-1, 0, 10, 10]);
        }
        p
    }

    fn connack_pkt(&mut self, ver: &str) -> P {
        let r = &mut self.rng;
        let mut p = P::of("connack", ver);
        let fail = r.chance(1, 12);
        if fail {
            p.rc = if ver == "v50" { 135 } else { 5 };
            return p;
        }
        p.sp = r.chance(1, 2);
        if ver == "v50" {
            p.rm = *pick(r, &[-1, -1, 1, 2, 3, 65535]);
            p.tam = *pick(r, &[-1, -1, 0, 1, 2, 3]);
            p.mps = *pick(r, &[-1, -1, -1, 2, 4, 9, 12, 16, 100]);
            p.sei = *pick(r, &[-1, -1, 0, 10]);
            p.ska = *pick(r, &[-1, -1, 0, 5]);
        }
        p
    }

    fn publish_pkt(&mut self, ver: &str, qos: i64, pid: i64, tam: i64, inbound: bool) -> P {
        let mut p = P::of("publish", ver);
        p.qos = qos;
        p.pid = if qos > 0 { pid } else { 0 };
        let topics = ["t1", "t2"];
        p.topic = pick(&mut self.rng, &topics).to_string();
        self.msg += 1;
        p.msg = format!("m{}", self.msg % 7);
        if ver == "v50" && self.rng.chance(2, 5) {
            let hi = if self.hostile() || inbound { tam + 1 } else { tam.max(1) };
            p.alias = self.rng.range(if self.hostile() { 0 } else { 1 }, hi.max(1));
            if self.rng.chance(1, 3) {
                p.topic = "".into(); // alias only
            }
        }
        p.dup = inbound && qos > 0 && self.rng.chance(1, 5);
        p
    }

    fn ack(kind: &str, ver: &str, pid: i64, rc: i64) -> P {
        let mut p = P::of(kind, ver);
        p.pid = pid;
        p.rc = if ver == "v50" { rc } else { 0 };
        p
    }
}

fn send(p: P) -> Call {
    let mut c = Call::of("send");
    c.pkt = p;
    c
}
fn recv(p: P) -> Call {
    let mut c = Call::of("recv");
    c.pkt = p;
    c.flag = true;
    c
}

impl Source for Driver {
    fn next(&mut self, t: &Track, step: usize) -> Option<Call> {
        if step == 0 {
            return Some(self.first.clone());
        }
        if let Some(c) = self.setup.pop_front() {
            return Some(c);
        }
        if step > self.steps {
            return None;
        }
        // multi-call operations first
        if let Some((qos, topic, alias)) = self.want_publish.take() {
            if let Some(pid) = t.held.last().copied() {
                let v = self.ver(t);
                let mut p = P::of("publish", &v);
                p.qos = qos;
                p.pid = pid;
                p.topic = topic;
                p.alias = alias;
                self.msg += 1;
                p.msg = format!("m{}", self.msg % 7);
                return Some(send(p));
            }
        }
        if let Some(kind) = self.want_sub.take() {
            if let Some(pid) = t.held.last().copied() {
                let v = self.ver(t);
                let mut p = P::of(&kind, &v);
                p.pid = pid;
                return Some(send(p));
            }
        }
        if let Some(c) = self.pending.pop_front() {
            return Some(c);
        }
        if t.close_req || t.partial {
            return Some(Call::of("closed"));
        }
        let v = self.ver(t);
        let can_client = t.role != "server" && t.ver != "undet";
        let can_server = t.role != "client";
        let r = self.rng.below(100);

        if t.conn == "disc" && !t.tr {
            // between connections
            if r < 45 && can_client {
                let p = self.connect_pkt(&v);
                return Some(send(p));
            }
            if r < 80 && can_server {
                let pv = if t.ver == "undet" { pick(&mut self.rng, &["v311", "v50", "v50"]).to_string() } else { v.clone() };
                let p = self.connect_pkt(&pv);
                return Some(recv(p));
            }
            if r < 84 {
                return Some(Call::of("acquire"));
            }
            if r < 88 && !t.held.is_empty() {
                let mut c = Call::of("release");
                c.id = *pick(&mut self.rng, &t.held);
                return Some(c);
            }
            if r < 93 && t.ver != "undet" {
                // publish while disconnected (refused, or stored with offline publishing)
                let qos = self.rng.range(0, 2);
                if qos > 0 {
                    self.want_publish = Some((qos, "t1".into(), 0));
                    return Some(Call::of("acquire"));
                }
                let p = self.publish_pkt(&v, 0, 0, 0, false);
                return Some(send(p));
            }
            if r < 96 && !t.stored_pubs.is_empty() {
                let mut c = Call::of("erase");
                c.id = *pick(&mut self.rng, &t.stored_pubs);
                return Some(c);
            }
            if self.hostile() && can_server {
                let k: &str = *pick(&mut self.rng, &["publish", "puback", "pingreq", "subscribe"]);
                let mut p = P::of(k, &v);
                p.pid = self.rng.range(0, 2);
                p.qos = if p.kind == "publish" { self.rng.range(0, 2) } else { 0 };
                if p.kind == "publish" { p.topic = "t1".into(); if p.qos == 0 { p.pid = 0; } }
                return Some(recv(p));
            }
            let mut c = Call::of("register");
            c.id = self.rng.range(0, 5);
            return Some(c);
        }

        if t.conn == "disc" {
            // transport open but connection gone (DISCONNECT sent / refused CONNACK): report the close
            return Some(Call::of("closed"));
        }

        if t.conn == "connecting" {
            if t.client {
                if r < 70 {
                    let p = self.connack_pkt(&v);
                    return Some(recv(p));
                }
            } else if r < 70 {
                let p = self.connack_pkt(&v);
                return Some(send(p));
            }
            if r < 80 {
                return Some(Call::of("closed"));
            }
            if r < 90 && t.ver != "undet" {
                self.want_publish = Some((self.rng.range(1, 2), "t1".into(), 0));
                return Some(Call::of("acquire"));
            }
            if !t.armed.is_empty() && r < 95 {
                let mut c = Call::of("fire");
                c.k = pick(&mut self.rng, &t.armed.iter().cloned().collect::<Vec<_>>()).clone();
                return Some(c);
            }
            return Some(Call::of("acquire"));
        }

        // connected
        let wq = self.w(&["qos", "ids", "crash", "mps", "reuse"], 14, 26);
        let wi = self.w(&["inbound", "hostile", "crash", "mps"], 14, 26);
        let wt = self.w(&["timers", "reuse"], 6, 22);
        let wa = self.w(&["alias"], 0, 18);
        let wh = self.w(&["hostile", "gate"], 0, 14);
        let total = wq + wi + wt + wa + wh + 30;
        let mut x = self.rng.below(total);

        if x < wq {
            // outbound QoS traffic
            let c = self.rng.below(10);
            if c < 4 {
                let qos = self.rng.range(1, 2);
                self.want_publish = Some((qos, pick(&mut self.rng, &["t1", "t2"]).to_string(), 0));
                return Some(Call::of("acquire"));
            }
            let aw: Vec<(i64, String)> = t.awaiting.iter().map(|(k, v)| (*k, v.clone())).collect();
            if c < 8 && !aw.is_empty() {
                let (pid, kind) = pick(&mut self.rng, &aw).clone();
                if kind == "pubrel" {
                    return Some(send(Driver::ack("pubrel", &v, pid, 0)));
                }
                // mostly the matching acknowledgement, sometimes a wrong kind
                let k = if self.rng.chance(1, 8) { pick(&mut self.rng, &["puback", "pubrec", "pubcomp"]).to_string() } else { kind };
                let rc = if k == "pubrec" && self.rng.chance(1, 5) { 128 } else { 0 };
                return Some(recv(Driver::ack(&k, &v, pid, rc)));
            }
            if c < 9 && !t.stored_pubs.is_empty() {
                let mut e = Call::of("erase");
                e.id = *pick(&mut self.rng, &t.stored_pubs);
                return Some(e);
            }
            // an acknowledgement that matches nothing
            let k = pick(&mut self.rng, &["puback", "pubrec", "pubcomp"]).to_string();
            return Some(recv(Driver::ack(&k, &v, self.rng.range(30, 33), 0)));
        }
        x -= wq;
        if x < wi {
            // inbound QoS traffic
            let c = self.rng.below(10);
            if c < 5 {
                let qos = self.rng.range(0, 2);
                let pid = self.rng.range(1, 3);
                let p = self.publish_pkt(&v, qos, pid, t.own_tam, true);
                return Some(recv(p));
            }
            if c < 7 && !t.in_un.is_empty() {
                let pid = *pick(&mut self.rng, &t.in_un.iter().cloned().collect::<Vec<_>>());
                let k = if t.handled.contains(&pid) { if self.rng.chance(1, 2) { "pubrec" } else { "pubcomp" } } else { "puback" };
                let rc = if k == "pubrec" && self.rng.chance(1, 4) { 128 } else { 0 };
                return Some(send(Driver::ack(k, &v, pid, rc)));
            }
            if c < 9 {
                let pid = if !t.handled.is_empty() && self.rng.chance(3, 4) { *pick(&mut self.rng, &t.handled.iter().cloned().collect::<Vec<_>>()) } else { self.rng.range(1, 3) };
                return Some(recv(Driver::ack("pubrel", &v, pid, 0)));
            }
            return Some(send(Driver::ack("pubcomp", &v, self.rng.range(1, 3), 0)));
        }
        x -= wi;
        if x < wt {
            let c = self.rng.below(10);
            if c < 4 && !t.armed.is_empty() {
                let mut f = Call::of("fire");
                f.k = pick(&mut self.rng, &t.armed.iter().cloned().collect::<Vec<_>>()).clone();
                return Some(f);
            }
            if c < 6 && t.role != "server" {
                return Some(send(P::of("pingreq", &v)));
            }
            if c < 7 {
                return Some(recv(P::of(if t.client { "pingresp" } else { "pingreq" }, &v)));
            }
            if c < 8 && !t.client {
                return Some(send(P::of("pingresp", &v)));
            }
            let mut s = Call::of("set_interval");
            s.val = *pick(&mut self.rng, &[-1, 0, 7, 30]);
            return Some(s);
        }
        x -= wt;
        if x < wa {
            // topic aliases, outbound
            let qos = self.rng.range(0, 1);
            let topic = pick(&mut self.rng, &["t1", "t2", "", ""]).to_string();
            let hi = if self.hostile() { t.peer_tam + 1 } else { t.peer_tam.max(1) };
            let alias = if topic.is_empty() || self.rng.chance(1, 2) { self.rng.range(1, hi.max(1)) } else { 0 };
            if v != "v50" {
                return Some(send(self.publish_pkt(&v, 0, 0, 0, false)));
            }
            if qos > 0 {
                self.want_publish = Some((qos, topic, alias));
                return Some(Call::of("acquire"));
            }
            let mut p = P::of("publish", &v);
            p.topic = topic;
            p.alias = alias;
            p.msg = "m1".into();
            return Some(send(p));
        }
        x -= wa;
        if x < wh {
            let c = self.rng.below(12);
            if c < 2 {
                return Some(Call::of("garbage"));
            }
            if c < 6 {
                let k = pick(&mut self.rng, &["publish", "puback", "connack", "connect", "subscribe"]).to_string();
                let mut p = P::of(&k, &v);
                p.pid = 1;
                p.qos = if k == "publish" { 1 } else { 0 };
                p.topic = if k == "publish" { "t1".into() } else { "".into() };
                p.clean = true;
                p.bad = "MalformedPacket".into();
                return Some(recv(p));
            }
            if c < 8 {
                // a kind the peer may not send / a handshake packet on an established connection
                let k = pick(&mut self.rng, &["connect", "connack", "subscribe", "suback", "pingreq", "pingresp", "auth", "unsuback"]).to_string();
                let kv = if k == "auth" { "v50".to_string() } else { v.clone() };
                let mut p = P::of(&k, &kv);
                p.pid = 1;
                p.clean = true;
                return Some(recv(p));
            }
            if c < 10 {
                // identifier 0 / unknown identifiers
                let k = pick(&mut self.rng, &["puback", "pubrec", "pubrel", "pubcomp", "suback"]).to_string();
                return Some(recv(Driver::ack(&k, &v, *pick(&mut self.rng, &[0, 0, 77]), 0)));
            }
            // boundary / unknown identifiers - but never the identifier of a running exchange (environment contract:
            // the application gives back only identifiers it acquired and has not used)
            let cands: Vec<i64> = [0i64, 1, 65535, 77].iter().copied()
                .filter(|id| !t.awaiting.contains_key(id) && !t.sub.contains(id) && !t.stored_pubs.contains(id))
                .collect();
            let mut rel = Call::of("release");
            rel.id = *pick(&mut self.rng, &cands);
            return Some(rel);
        }
        // general traffic
        let c = self.rng.below(30);
        if c < 4 && t.role != "server" {
            self.want_sub = Some(pick(&mut self.rng, &["subscribe", "unsubscribe"]).to_string());
            return Some(Call::of("acquire"));
        }
        if c < 7 && !t.sub.is_empty() {
            let pid = *pick(&mut self.rng, &t.sub.iter().cloned().collect::<Vec<_>>());
            let k = pick(&mut self.rng, &["suback", "unsuback"]).to_string();
            return Some(recv(Driver::ack(&k, &v, pid, 0)));
        }
        if c < 10 {
            return Some(send(self.publish_pkt(&v, 0, 0, t.peer_tam, false)));
        }
        if c < 13 {
            return Some(recv(self.publish_pkt(&v, 0, 0, t.own_tam, true)));
        }
        if c < 15 && !t.client {
            let k: &str = *pick(&mut self.rng, &["subscribe", "unsubscribe"]);
            let mut p = P::of(k, &v);
            p.pid = self.rng.range(1, 3);
            return Some(recv(p));
        }
        if c < 16 && !t.client {
            let k: &str = *pick(&mut self.rng, &["suback", "unsuback"]);
            let pid = self.rng.range(1, 3);
            return Some(send(Driver::ack(k, &v, pid, 0)));
        }
        if c < 19 {
            return Some(Call::of("closed")); // transport loss
        }
        if c < 20 {
            let mut p = P::of("disconnect", &v);
            if v == "v50" && self.rng.chance(1, 2) { p.rc = 4; }
            return Some(if self.rng.chance(1, 2) && (t.role != "server" || v == "v50") { send(p) } else if t.client && v == "v311" { send(P::of("disconnect", &v)) } else { recv(p) });
        }
        if c < 22 && (self.profile == "crash" || self.profile == "qos" || self.profile == "inbound")
            && t.held.is_empty() && !t.awaiting.values().any(|k| k == "pubrel") && t.persistent
        {
            // C16 speaks of reconnecting "with the session present": crash points are taken in persistent sessions
            let mut c = Call::of("crash");
            c.flag = self.rng.chance(1, 2); // order in which the two parts of the export are restored
            return Some(c);
        }
        if c < 23 && (self.profile == "reuse" || self.profile == "hostile") {
            // the transport delivers only the first bytes of a frame, then dies
            let mut p = P::of("publish", &v);
            p.topic = "t1".into();
            p.msg = "m1".into();
            let mut pc = Call::of("recv");
            pc.pkt = p;
            pc.flag = false;
            return Some(pc);
        }
        if c < 25 && !t.armed.is_empty() {
            let mut f = Call::of("fire");
            f.k = pick(&mut self.rng, &t.armed.iter().cloned().collect::<Vec<_>>()).clone();
            return Some(f);
        }
        if c < 27 && v == "v50" {
            return Some(if self.rng.chance(1, 2) { send(P::of("auth", &v)) } else { recv(P::of("auth", &v)) });
        }
        if t.held.len() < 3 { Some(Call::of("acquire")) } else {
            let mut rel = Call::of("release");
            rel.id = t.held[0];
            Some(rel)
        }
    }
}

pub fn drive(trie: &mut Trie, st: &mut Stats, n: usize, seed: u64, steps: usize, profile: &str) {
    let mut master = Rng::new(seed ^ 0x5eed);
    for _ in 0..n {
        let mut rng = Rng::new(master.next());
        let role = *pick(&mut rng, &["client", "client", "server", "server", "any"]);
        let ver = if role == "client" { *pick(&mut rng, &["v311", "v50", "v50"]) } else { *pick(&mut rng, &["v311", "v50", "v50", "undet"]) };
        let idw = if rng.chance(1, 4) { 32 } else { 16 };
        let mut first = Call::of("new");
        first.role = role.into();
        first.ver = ver.into();
        first.idw = idw;
        let mut setup = VecDeque::new();
        for name in ["offline", "auto_pub", "auto_ping", "auto_map", "auto_replace"] {
            let p = match (name, profile) {
                ("auto_pub", _) => 2,
                ("auto_map", "alias") | ("auto_replace", "alias") => 2,
                ("offline", "qos") | ("offline", "gate") => 3,
                _ => 5,
            };
            if rng.chance(1, p) {
                let mut c = Call::of("opt");
                c.name = name.into();
                c.flag = true;
                setup.push_back(c);
            }
        }
        if rng.chance(1, 3) {
            let mut c = Call::of("set_resp_timeout");
            c.val = *pick(&mut rng, &[3, 3000]);
            setup.push_back(c);
        }
        let mut d = Driver { rng, steps, profile: profile.to_string(), first, setup, pending: VecDeque::new(),
                             want_publish: None, want_sub: None, msg: 0 };
        execute_from(trie, &mut d, st);
    }
}
