//! Seeded random driver (I->S): contract-respecting random histories with value ranges the
//! exhaustive model constants cannot reach. Filled in below.
use crate::Stats;
use vcommon::Trie;

pub fn drive(_trie: &mut Trie, _st: &mut Stats, _n: usize, _seed: u64, _steps: usize, _profile: &str) {}
