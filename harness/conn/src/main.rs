//! conn-harness: executes call schedules (printed by TLC from MC_Endpoint, or produced by the
//! seeded random driver in drive.rs) on real GenericConnection objects and records every call,
//! the returned events, the public getters and the hook digest as an NDJSON trie that
//! spec/Trace_Endpoint.tla judges.
//!
//!   conn-harness run [--edges FILE]... [--drive N --seed S --steps K --profile NAME] --out TRIE
mod drive;
mod model;
mod obj;
mod pair;
mod probe;

use model::*;
use obj::*;
use serde_json::{json, Value};
use std::collections::{BTreeSet, HashMap};
use vcommon::{arg, catch, read_ndjson, silence_panics, Trie};

pub struct Stats {
    pub calls: u64,
    pub schedules: u64,
    pub inapplicable: u64,
    pub panics: u64,
    pub nondet: Vec<String>,
    pub ops: HashMap<String, u64>,
}

/// What the harness itself tracks (from the real object's outputs) to keep replays and random
/// histories inside the environment contract and to decide when a shadow object is spawned.
pub struct Track {
    pub role: String,
    pub idw: i64,
    pub ver: String,
    pub conn: &'static str, // disc | connecting | connected
    pub client: bool,
    pub tr: bool,
    pub close_req: bool,
    pub partial: bool,
    pub ever_closed: bool,
    pub nconn: usize,
    pub persistent: bool,
    pub armed: BTreeSet<String>,
    pub held: Vec<i64>,
    pub awaiting: std::collections::BTreeMap<i64, String>,
    pub in_un: BTreeSet<i64>,
    pub handled: BTreeSet<i64>,
    pub sub: BTreeSet<i64>,
    pub stored_pubs: Vec<i64>,
    pub peer_tam: i64,
    pub own_tam: i64,
    pub pidmap: HashMap<i64, i64>,
    pub pidmap_f: HashMap<i64, i64>,
}

impl Track {
    pub fn new(c0: &Call) -> Track {
        Track {
            role: c0.role.clone(), idw: c0.idw, ver: c0.ver.clone(), conn: "disc", client: false, tr: false,
            close_req: false, partial: false, ever_closed: false, nconn: 0, persistent: false,
            armed: BTreeSet::new(), held: vec![], awaiting: Default::default(), in_un: BTreeSet::new(),
            handled: BTreeSet::new(), sub: BTreeSet::new(), stored_pubs: vec![], peer_tam: 0, own_tam: 0,
            pidmap: HashMap::new(), pidmap_f: HashMap::new(),
        }
    }
}

fn has_send(out: &[E], kind: &str, failing_connack: bool) -> bool {
    out.iter().any(|e| e.ev == "send" && e.pkt.kind == kind && (!failing_connack || e.pkt.rc != 0))
}

pub fn track_conn(t: &mut Track, call: &Call, out: &[E], obs: &Value) {
    let recvd = |k: &str| out.iter().any(|e| e.ev == "recv" && e.pkt.kind == k);
    let closed = call.op == "closed" || call.op == "crash";
    let conn_sent = call.op == "send" && call.pkt.kind == "connect" && has_send(out, "connect", false);
    let conn_recvd = recvd("connect");
    let connack_ok = out.iter().find(|e| e.ev == "recv" && e.pkt.kind == "connack" && e.pkt.rc == 0).map(|e| e.pkt.clone());
    let new_session = ((conn_sent || conn_recvd) && out.iter().any(|e| e.pkt.kind == "connect" && e.pkt.clean))
        || connack_ok.as_ref().map(|p| !p.sp).unwrap_or(false);
    if let Some(v) = obs.get("ver").and_then(|v| v.as_str()) {
        t.ver = v.to_string();
    }
    if closed {
        t.conn = "disc";
        t.ever_closed = true;
        t.tr = false;
        t.close_req = false;
        t.partial = false;
        t.sub.clear();
        t.in_un.clear();
        if !t.persistent {
            t.awaiting.clear();
            t.handled.clear();
        }
        if call.op == "crash" {
            t.held.clear();
        }
    } else if has_send(out, "disconnect", false) || has_send(out, "connack", true) {
        t.conn = "disc";
    } else if conn_sent || conn_recvd {
        t.conn = "connecting";
        t.client = conn_sent;
        t.nconn += 1;
        t.sub.clear();
        t.in_un.clear();
        let cp = out.iter().find(|e| e.pkt.kind == "connect").map(|e| e.pkt.clone()).unwrap();
        t.persistent = if cp.ver == "v311" { !cp.clean } else { cp.sei > 0 };
        if conn_sent { t.own_tam = cp.tam.max(0); t.peer_tam = 0; } else { t.peer_tam = cp.tam.max(0); t.own_tam = 0; }
    } else if connack_ok.is_some()
        || (call.op == "send" && call.pkt.kind == "connack" && call.pkt.rc == 0 && has_send(out, "connack", false))
    {
        t.conn = "connected";
        if let Some(p) = &connack_ok {
            if p.sei >= 0 { t.persistent = p.sei > 0; }
            if p.tam >= 0 { t.peer_tam = p.tam; }
        } else if call.pkt.tam >= 0 { t.own_tam = call.pkt.tam; }
    }
    if conn_sent || call.op == "recv" || call.op == "garbage" {
        t.tr = true;
    }
    if call.op == "opt" && call.name == "offline" && call.flag { t.persistent = true; }
    if out.iter().any(|e| e.ev == "close") { t.close_req = true; }
    if call.op == "recv" && !call.flag { t.partial = true; }
    if new_session { t.held.clear(); t.awaiting.clear(); t.handled.clear(); }
    // identifiers
    if (call.op == "acquire" || call.op == "register") && call.ok { t.held.push(call.id); }
    let no_err = !out.iter().any(|e| e.ev == "error");
    if call.op == "send" {
        let p = &call.pkt;
        if matches!(p.kind.as_str(), "publish" | "subscribe" | "unsubscribe") { t.held.retain(|x| *x != p.pid); }
        if p.kind == "publish" && p.qos > 0 && no_err { t.awaiting.insert(p.pid, if p.qos == 2 { "pubrec".into() } else { "puback".into() }); }
        if p.kind == "subscribe" || p.kind == "unsubscribe" { if no_err { t.sub.insert(p.pid); } }
    }
    for e in out {
        if e.ev == "recv" && e.pkt.kind == "pubrec" && e.pkt.rc < 128 {
            t.awaiting.insert(e.pkt.pid, "pubrel".into());
        }
    }
    for e in out {
        match (e.ev.as_str(), e.pkt.kind.as_str()) {
            ("released", _) => { t.held.retain(|x| *x != e.id); t.awaiting.remove(&e.id); t.sub.remove(&e.id); }
            ("send", "pubrel") => { t.awaiting.insert(e.pkt.pid, "pubcomp".into()); }
            ("recv", "publish") if e.pkt.qos > 0 => { t.in_un.insert(e.pkt.pid); if e.pkt.qos == 2 { t.handled.insert(e.pkt.pid); } }
            ("recv", "pubrel") => { t.handled.remove(&e.pkt.pid); }
            ("send", "puback") | ("send", "pubcomp") => { t.in_un.remove(&e.pkt.pid); }
            ("send", "pubrec") if e.pkt.rc >= 128 => { t.in_un.remove(&e.pkt.pid); t.handled.remove(&e.pkt.pid); }
            _ => {}
        }
    }
    if call.op == "send" && call.pkt.kind == "pubrel" && no_err { t.awaiting.insert(call.pkt.pid, "pubcomp".into()); }
    t.stored_pubs = obs.get("stored").and_then(|s| s.as_array()).map(|a| a.iter().filter(|p| p["kind"] == "publish").filter_map(|p| p["pid"].as_i64()).collect()).unwrap_or_default();
    if call.op == "fire" {
        t.armed.remove(&call.k);
    }
    for e in out {
        if e.ev == "timer_reset" {
            t.armed.insert(e.k.clone());
        } else if e.ev == "timer_cancel" {
            t.armed.remove(&e.k);
        }
    }
}

/// Where the next call of a history comes from: a recorded schedule or the random driver.
pub trait Source {
    fn next(&mut self, t: &Track, step: usize) -> Option<Call>;
}
pub struct VecSource(pub Vec<Call>);
impl Source for VecSource {
    fn next(&mut self, _t: &Track, step: usize) -> Option<Call> {
        self.0.get(step).cloned()
    }
}

/// identifiers that live in the LOCAL id space (handed out by this object's acquire)
fn local_space(call: &Call) -> bool {
    match call.op.as_str() {
        "send" => matches!(call.pkt.kind.as_str(), "publish" | "subscribe" | "unsubscribe" | "pubrel"),
        "recv" => matches!(call.pkt.kind.as_str(), "puback" | "pubrec" | "pubcomp" | "suback" | "unsuback"),
        "release" | "erase" => true,
        _ => false,
    }
}

pub struct StepOut {
    pub call: Call,
    pub out: Vec<E>,
    pub panic: Option<String>,
}

/// One public call on one object. `Err` = the schedule cannot be continued (contract / unbuildable).
/// `--checked`: every schedule runs on a twin object as well, whose packets go through `checked_send` with their
/// concrete types; the twin takes the place of the other shadow objects (C11 judges only this one).
pub static CHECKED_TWIN: std::sync::atomic::AtomicBool = std::sync::atomic::AtomicBool::new(false);
thread_local! { static USE_CHECKED: std::cell::Cell<bool> = std::cell::Cell::new(false); }

pub fn do_call(c: &mut Box<dyn Conn>, call: &Call, pidmap: &mut HashMap<i64, i64>, wire: Option<&[u8]>) -> Result<StepOut, String> {
    let mut call = call.clone();
    if local_space(&call) {
        if call.op == "send" || call.op == "recv" {
            if let Some(r) = pidmap.get(&call.pkt.pid) {
                call.pkt.pid = *r;
            }
        } else if let Some(r) = pidmap.get(&call.id) {
            call.id = *r;
        }
    }
    let model_id = call.id;
    let res: Result<Result<(Vec<E>, Call), String>, String> = match call.op.as_str() {
        "send" => {
            if let Some(sz) = c.size_of(&call.pkt) {
                call.pkt.size = sz; // the size the library reports for what the application hands in
            }
            let p = call.pkt.clone();
            let via_checked = USE_CHECKED.with(|f| f.get());
            catch(|| if via_checked { c.send_checked(&p).map(|(ev, _)| ev) } else { c.send(&p) }).map(|r| {
                r.map(|ev| (ev, call.clone()))
            })
        }
        "recv" => {
            let mut p = call.pkt.clone();
            let bytes = if let Some(w) = wire {
                Ok(w.to_vec())
            } else if p.kind == "garbage" {
                Ok(vec![0x00, 0x00])
            } else {
                let mut q = p.clone();
                q.bad = "".into();
                c.encode(&q)
            };
            match bytes {
                Err(e) => Ok(Err(e)),
                Ok(b) => {
                    let b = if p.bad != "" && p.bad != "short" { corrupt(&b) } else { b };
                    if wire.is_none() {
                        p.size = b.len() as i64;
                    }
                    // flag = false: the transport delivers only the first bytes of the frame
                    let b = if !call.flag && wire.is_none() { b[..(b.len() + 1) / 2].to_vec() } else { b };
                    let whole = call.flag;
                    catch(|| c.recv_once(&b, 0)).map(|(ev, pos)| {
                        let mut c2 = call.clone();
                        c2.pkt = p.clone();
                        c2.flag = whole;
                        c2.val = pos as i64;
                        Ok((ev, c2))
                    })
                }
            }
        }
        "garbage" => {
            let b = vec![0x10u8, 0xFF, 0xFF, 0xFF, 0xFF];
            catch(|| c.recv_once(&b, 0)).map(|(ev, pos)| {
                let mut c2 = call.clone();
                c2.val = pos as i64;
                Ok((ev, c2))
            })
        }
        "fire" => catch(|| c.fire(&call.k)).map(|ev| Ok((ev, call.clone()))),
        "closed" | "crash" => catch(|| c.closed()).map(|ev| Ok((ev, call.clone()))),
        "acquire" => catch(|| c.acquire()).map(|r| {
            let mut c2 = call.clone();
            c2.ok = r.is_some();
            c2.id = r.unwrap_or(0);
            Ok((vec![], c2))
        }),
        "register" => catch(|| c.register(call.id)).map(|r| {
            let mut c2 = call.clone();
            c2.ok = r;
            Ok((vec![], c2))
        }),
        "release" => catch(|| c.release(call.id)).map(|ev| Ok((ev, call.clone()))),
        "erase" => catch(|| c.erase(call.id)).map(|ev| Ok((ev, call.clone()))),
        "set_interval" => catch(|| c.set_interval(call.val)).map(|ev| Ok((ev, call.clone()))),
        "set_resp_timeout" => catch(|| c.set_resp_timeout(call.val)).map(|_| Ok((vec![], call.clone()))),
        "opt" => catch(|| c.set_opt(&call.name, call.flag)).map(|_| Ok((vec![], call.clone()))),
        "regulate" => {
            let p = call.pkt.clone();
            match catch(|| c.regulate(&p)) {
                Err(msg) => Err(msg),
                Ok(Err(e)) => Ok(Err(e)),
                Ok(Ok(res)) => {
                    let mut c2 = call.clone();
                    match res {
                        Ok(mut q) => {
                            if let Some(sz) = c.size_of(&q) {
                                q.size = sz;
                            }
                            c2.ok = true;
                            c2.pkts = vec![q];
                        }
                        Err(_) => {
                            c2.ok = false;
                            c2.pkts = vec![];
                        }
                    }
                    Ok(Ok((vec![], c2)))
                }
            }
        }
        "restore" => {
            for q in call.pkts.iter_mut() {
                if let Some(sz) = c.size_of(q) {
                    q.size = sz; // the size the library reports for this packet on this instantiation
                }
            }
            let pk = call.pkts.clone();
            catch(|| c.restore(&pk)).map(|r| r.map(|_| (vec![], call.clone())))
        }
        "restore_qos2" => catch(|| c.restore_qos2(&call.ids)).map(|_| Ok((vec![], call.clone()))),
        other => Ok(Err(format!("unknown op {other}"))),
    };
    match res {
        Err(msg) => Ok(StepOut { call, out: vec![], panic: Some(msg) }),
        Ok(Err(e)) => Err(e),
        Ok(Ok((ev, c2))) => {
            if c2.op == "acquire" && c2.ok && model_id != 0 {
                pidmap.insert(model_id, c2.id);
            }
            Ok(StepOut { call: c2, out: ev, panic: None })
        }
    }
}

pub fn obs_or_empty(c: &Box<dyn Conn>) -> (Value, Value) {
    let o = catch(|| c.obs()).unwrap_or(json!({"vacancy": -1, "stored": [], "qos2": [], "ver": "undet"}));
    let d = catch(|| c.dig()).unwrap_or(Value::Null);
    (o, d)
}

pub fn execute(trie: &mut Trie, calls: &[Call], st: &mut Stats) {
    if calls.is_empty() || calls[0].op != "new" {
        st.schedules += 1;
        st.inapplicable += 1;
        return;
    }
    let mut src = VecSource(calls.to_vec());
    execute_from(trie, &mut src, st);
}

pub fn execute_from(trie: &mut Trie, src: &mut dyn Source, st: &mut Stats) {
    st.schedules += 1;
    let dummy = Track::new(&Call::of("new"));
    let c0 = match src.next(&dummy, 0) {
        Some(c) if c.op == "new" => c,
        _ => {
            st.inapplicable += 1;
            return;
        }
    };
    let mut main = new_conn(&c0.role, &c0.ver, c0.idw);
    let checked_twin = CHECKED_TWIN.load(std::sync::atomic::Ordering::Relaxed);
    let mut shadow: Option<(&'static str, Box<dyn Conn>)> =
        if checked_twin { Some(("checked", new_conn(&c0.role, &c0.ver, c0.idw))) } else { None };
    let mut t = Track::new(&c0);
    let mut cur = 0usize;
    let mut done: Vec<Call> = vec![c0.clone()];
    let empty_obs = json!({"vacancy": -1, "stored": [], "qos2": [], "ver": "undet"});

    let mut i = 0usize;
    loop {
        let call = if i == 0 { c0.clone() } else {
            match src.next(&t, i) { Some(c) => c, None => return }
        };
        let call = &call;
        *st.ops.entry(call.op.clone()).or_insert(0) += 1;
        let (mut body, key): (Value, String);
        if i == 0 {
            let (o, d) = obs_or_empty(&main);
            body = json!({"who": "x", "call": call, "out": [], "obs": o, "dig": d, "panic": false, "msg": "",
                          "shadow": "none", "outF": [], "obsF": o, "panicF": false});
            key = serde_json::to_string(call).unwrap();
        } else {
            // environment contract, decided on the real object's own outputs
            if call.op == "fire" && !t.armed.contains(&call.k) {
                st.inapplicable += 1;
                return;
            }
            // shadow bookkeeping (same rules as MC_Endpoint.Next)
            let is_connect = call.pkt.kind == "connect" && (call.op == "send" || call.op == "recv");
            let cur_mode = shadow.as_ref().map(|s| s.0).unwrap_or("none");
            let spawn_fresh = !checked_twin && is_connect && t.ever_closed && t.conn == "disc" && cur_mode != "restored";
            let spawn_fixed = !checked_twin && is_connect && call.op == "recv" && main.version() == "undet"
                && (call.pkt.ver == "v311" || call.pkt.ver == "v50") && !spawn_fresh;
            if checked_twin {
                // the twin simply follows
            } else if call.op == "crash" {
                let m = &main;
                let hf = call.flag;
                match catch(|| m.restored_copy(hf)) {
                    Ok(s) => shadow = Some(("restored", s)),
                    Err(_) => shadow = None,
                }
                t.pidmap_f = HashMap::new();
            } else if spawn_fresh && t.persistent && t.held.is_empty() && !t.awaiting.values().any(|k| k == "pubrel")
                && {
                    // ... and only where the export really is the whole session: every exchange in flight has its packet stored
                    let stored: Vec<i64> = main.obs()["stored"].as_array().map(|a| a.iter().filter_map(|x| x["pid"].as_i64()).collect()).unwrap_or_default();
                    t.awaiting.keys().all(|k| stored.contains(k))
                }
            {
                // the reused object still holds a persistent session: the fresh object is GIVEN that session
                let m = &main;
                match catch(|| m.restored_copy(false)) {
                    Ok(s) => shadow = Some(("resumed", s)),
                    Err(_) => shadow = None,
                }
                t.pidmap_f = HashMap::new();
            } else if spawn_fresh {
                let v = main.version();
                shadow = Some(("fresh", main.fresh_like(&v)));
                t.pidmap_f = HashMap::new();
            } else if spawn_fixed {
                // a fixed-version server that went through the same identifier-management calls
                let mut sh = main.fresh_like(&call.pkt.ver);
                t.pidmap_f = HashMap::new();
                for prior in &done[1..] {
                    if matches!(prior.op.as_str(), "acquire" | "register" | "release") {
                        let _ = do_call(&mut sh, prior, &mut t.pidmap_f, None);
                    }
                }
                shadow = Some(("fixed", sh));
            }
            st.calls += 1;
            let r = match do_call(&mut main, call, &mut t.pidmap, None) {
                Ok(r) => r,
                Err(_e) => {
                    st.inapplicable += 1;
                    return;
                }
            };
            let (o, d) = obs_or_empty(&main);
            let (mode, out_f, obs_f, panic_f) = if call.op == "crash" {
                ("none", vec![], o.clone(), false)
            } else if let Some((mode, sh)) = shadow.as_mut() {
                USE_CHECKED.with(|f| f.set(*mode == "checked"));
                let rf = do_call(sh, call, &mut t.pidmap_f, None);
                USE_CHECKED.with(|f| f.set(false));
                match rf {
                    Ok(rf) => {
                        let (of, _) = obs_or_empty(sh);
                        (*mode, rf.out, of, rf.panic.is_some())
                    }
                    Err(_) => (*mode, vec![], empty_obs.clone(), false),
                }
            } else {
                ("none", vec![], o.clone(), false)
            };
            track_conn(&mut t, &r.call, &r.out, &o);
            if r.panic.is_some() {
                st.panics += 1;
            }
            key = serde_json::to_string(&r.call).unwrap();
            body = json!({"who": "x", "call": r.call, "out": r.out, "obs": o, "dig": d,
                          "panic": r.panic.is_some(), "msg": r.panic.clone().unwrap_or_default(),
                          "shadow": mode, "outF": out_f, "obsF": obs_f, "panicF": panic_f});
            if r.panic.is_some() {
                // digest of a panicked object is meaningless; keep the previous one for shape
                body["dig"] = trie.nodes[cur].2.get("dig").cloned().unwrap_or(Value::Null);
                let _ = trie.child(cur, &key, body);
                return;
            }
            done.push(call.clone());
        }
        if body["dig"].is_null() {
            body["dig"] = trie.nodes[cur].2.get("dig").cloned().unwrap_or(Value::Null);
        }
        match trie.child(cur, &key, body) {
            Ok((id, _)) => cur = id,
            Err(e) => {
                st.nondet.push(e);
                return;
            }
        }
        i += 1;
    }
}

fn parse_calls(v: &Value) -> Option<Vec<Call>> {
    let h = v.get("hist")?.as_array()?;
    let mut out = Vec::with_capacity(h.len());
    for c in h {
        match serde_json::from_value::<Call>(c.clone()) {
            Ok(c) => out.push(c),
            Err(e) => {
                eprintln!("bad call record: {e}: {c}");
                std::process::exit(2);
            }
        }
    }
    Some(out)
}

fn main() {
    let args: Vec<String> = std::env::args().collect();
    silence_panics();
    if args.iter().any(|a| a == "--checked") {
        CHECKED_TWIN.store(true, std::sync::atomic::Ordering::Relaxed);
    }
    let out = arg(&args, "--out").unwrap_or_else(|| {
        eprintln!("--out required");
        std::process::exit(2)
    });
    let root = json!({"who": "x", "call": Call::of("root"), "out": [], "obs": {"vacancy": -1, "stored": [], "qos2": [], "ver": "undet"},
                      "dig": Value::Null, "panic": false, "msg": "", "shadow": "none", "outF": [],
                      "obsF": {"vacancy": -1, "stored": [], "qos2": [], "ver": "undet"}, "panicF": false});
    let mut trie = Trie::new(root);
    let mut st = Stats { calls: 0, schedules: 0, inapplicable: 0, panics: 0, nondet: vec![], ops: HashMap::new() };

    let mut i = 0;
    while i < args.len() {
        if args[i] == "--edges" && i + 1 < args.len() {
            for e in read_ndjson(&args[i + 1]) {
                if let Some(calls) = parse_calls(&e) {
                    execute(&mut trie, &calls, &mut st);
                }
            }
        }
        i += 1;
    }
    if args.iter().any(|a| a == "--probe") {
        // compile-time acceptance table of checked_send, one node per (role, packet type)
        let root_dig = Value::Null;
        for c in probe::calls() {
            let key = serde_json::to_string(&c).unwrap();
            let body = json!({"who": "x", "call": c, "out": [], "obs": {"vacancy": -1, "stored": [], "qos2": [], "ver": "undet"},
                              "dig": root_dig, "panic": false, "msg": "", "shadow": "none", "outF": [],
                              "obsF": {"vacancy": -1, "stored": [], "qos2": [], "ver": "undet"}, "panicF": false});
            let _ = trie.child(0, &key, body);
        }
    }
    let mut i = 0;
    while i < args.len() {
        if args[i] == "--pair-edges" && i + 1 < args.len() {
            for e in read_ndjson(&args[i + 1]) {
                pair::execute_pair_edge(&mut trie, &e, &mut st);
            }
        }
        i += 1;
    }
    if let Some(n) = arg(&args, "--drive-pair") {
        let n: usize = n.parse().unwrap_or(0);
        let seed: u64 = arg(&args, "--seed").and_then(|s| s.parse().ok()).unwrap_or(1);
        let steps: usize = arg(&args, "--steps").and_then(|s| s.parse().ok()).unwrap_or(100);
        pair::drive_pair(&mut trie, &mut st, n, seed, steps);
    }
    if let Some(n) = arg(&args, "--drive") {
        let n: usize = n.parse().unwrap_or(0);
        let seed: u64 = arg(&args, "--seed").and_then(|s| s.parse().ok()).unwrap_or(1);
        let steps: usize = arg(&args, "--steps").and_then(|s| s.parse().ok()).unwrap_or(100);
        let profile = arg(&args, "--profile").unwrap_or_else(|| "mixed".into());
        drive::drive(&mut trie, &mut st, n, seed, steps, &profile);
    }
    // give the root a digest of the right shape (copy of its first child's) so that records are uniform
    if trie.nodes.len() > 1 {
        let d = trie.nodes.iter().find_map(|n| n.2.get("dig").filter(|d| !d.is_null()).cloned()).unwrap_or(Value::Null);
        for n in trie.nodes.iter_mut() {
            if n.2.get("dig").map(|x| x.is_null()).unwrap_or(true) {
                n.2.insert("dig".into(), d.clone());
            }
        }
    }
    if let Err(e) = trie.write(&out) {
        eprintln!("write {out}: {e}");
        std::process::exit(2);
    }
    println!(
        "{}",
        json!({"nodes": trie.len(), "leaves": trie.leaves(), "calls": st.calls, "schedules": st.schedules,
               "inapplicable": st.inapplicable, "panics": st.panics, "nondeterministic": st.nondet,
               "alternate_outcomes": trie.alternates, "ops": st.ops})
    );
}
