//! The real `GenericConnection<Role, PacketIdType>` behind one object-safe interface, for the six
//! instantiations {Client, Server, Any} x {u16, u32}. Only public API + the read-only verif hooks.
use crate::model::*;
use mqtt_protocol_core::mqtt;
use mqtt_protocol_core::mqtt::common::{Cursor, HashSet};
use mqtt_protocol_core::mqtt::connection::{GenericConnection, GenericEvent};
use mqtt_protocol_core::mqtt::prelude::GenericPacketTrait;
use mqtt_protocol_core::mqtt::Version;
use serde_json::{json, Value};

#[derive(Clone, Default)]
pub struct Opts {
    pub offline: bool,
    pub auto_pub: bool,
    pub auto_ping: bool,
    pub auto_map: bool,
    pub auto_replace: bool,
    pub resp_timeout: Option<u64>,
    pub interval: Option<Option<u64>>,
}

pub trait Conn {
    fn role(&self) -> &'static str;
    fn idw(&self) -> i64;
    fn send(&mut self, p: &P) -> Result<Vec<E>, String>;
    /// the same packet through `checked_send` with its CONCRETE type; `false` = that type is not `Sendable` for this
    /// role at compile time (the packet then went through `send` instead, so that a twin object stays in step)
    fn send_checked(&mut self, p: &P) -> Result<(Vec<E>, bool), String>;
    /// one `recv` call on `bytes[pos..]`; returns the events and the new cursor position
    fn recv_once(&mut self, bytes: &[u8], pos: usize) -> (Vec<E>, usize);
    fn fire(&mut self, k: &str) -> Vec<E>;
    fn closed(&mut self) -> Vec<E>;
    fn acquire(&mut self) -> Option<i64>;
    fn register(&mut self, id: i64) -> bool;
    fn release(&mut self, id: i64) -> Vec<E>;
    fn erase(&mut self, id: i64) -> Vec<E>;
    fn set_interval(&mut self, v: i64) -> Vec<E>;
    fn set_resp_timeout(&mut self, v: i64);
    fn set_opt(&mut self, name: &str, b: bool);
    fn restore(&mut self, pkts: &[P]) -> Result<(), String>;
    fn restore_qos2(&mut self, ids: &[i64]);
    fn regulate(&self, p: &P) -> Result<Result<P, String>, String>;
    fn encode(&self, p: &P) -> Result<Vec<u8>, String>;
    fn size_of(&self, p: &P) -> Option<i64>;
    /// bytes of the packets requested for sending since the last call, with their abstraction
    fn take_wire(&mut self) -> Vec<(P, Vec<u8>)>;
    fn obs(&self) -> Value;
    fn dig(&self) -> Value;
    fn version(&self) -> String;
    fn fresh_like(&self, ver: &str) -> Box<dyn Conn>;
    /// `handled_first`: the order in which the two parts of the export are given to the new object
    fn restored_copy(&self, handled_first: bool) -> Box<dyn Conn>;
}

pub fn ver_of(s: &str) -> Version {
    match s {
        "v311" => Version::V3_1_1,
        "v50" => Version::V5_0,
        _ => Version::Undetermined,
    }
}
pub fn ver_name(v: Version) -> &'static str {
    match v {
        Version::V3_1_1 => "v311",
        Version::V5_0 => "v50",
        Version::Undetermined => "undet",
    }
}

/// Sort maximal runs of `released` events (they come out of a hash set in unspecified order).
pub fn canon(mut ev: Vec<E>) -> Vec<E> {
    let mut i = 0;
    while i < ev.len() {
        if ev[i].ev == "released" {
            let mut j = i;
            while j < ev.len() && ev[j].ev == "released" {
                j += 1;
            }
            ev[i..j].sort_by_key(|e| e.id);
            i = j;
        } else {
            i += 1;
        }
    }
    ev
}

/// `checked_send` for a concrete packet type IF `T: Sendable<R, W>` holds at compile time (inherent method), `None`
/// otherwise (blanket trait default) - the inherent method takes precedence where its bound is satisfied.
pub struct Disp<T, R, W>(std::marker::PhantomData<(T, R, W)>);
pub trait NoDispatch<T, R: mqtt::connection::role::RoleType, W: mqtt::packet::IsPacketId> {
    fn go(_c: &mut GenericConnection<R, W>, _p: T) -> Option<Vec<mqtt::connection::GenericEvent<W>>> {
        None
    }
}
impl<T, R: mqtt::connection::role::RoleType, W: mqtt::packet::IsPacketId> NoDispatch<T, R, W> for Disp<T, R, W> {}
impl<T: mqtt::connection::Sendable<R, W>, R: mqtt::connection::role::RoleType, W: mqtt::packet::IsPacketId> Disp<T, R, W> {
    pub fn go(c: &mut GenericConnection<R, W>, p: T) -> Option<Vec<mqtt::connection::GenericEvent<W>>> {
        Some(c.checked_send(p))
    }
}

macro_rules! conn_impl {
    ($name:ident, $Role:ty, $rolename:expr, $T:ty, $idw:expr, $m:ident) => {
        pub struct $name {
            pub c: GenericConnection<$Role, $T>,
            pub opts: Opts,
            pub wire: std::cell::RefCell<Vec<(P, Vec<u8>)>>,
        }

        impl $name {
            pub fn new(ver: &str) -> Self {
                $name { c: GenericConnection::<$Role, $T>::new(ver_of(ver)), opts: Opts::default(), wire: Default::default() }
            }
            fn evs(&self, v: Vec<GenericEvent<$T>>) -> Vec<E> {
                canon(
                    v.iter()
                        .map(|e| match e {
                            GenericEvent::NotifyPacketReceived(p) => {
                                let mut x = E::of("recv");
                                x.pkt = $m::abs(p);
                                x
                            }
                            GenericEvent::RequestSendPacket { packet, release_packet_id_if_send_error } => {
                                let mut x = E::of("send");
                                x.pkt = $m::abs(packet);
                                self.wire.borrow_mut().push((x.pkt.clone(), packet.to_continuous_buffer()));
                                x.rel = release_packet_id_if_send_error.map(|v| v as i64).unwrap_or(0);
                                x
                            }
                            GenericEvent::NotifyPacketIdReleased(id) => {
                                let mut x = E::of("released");
                                x.id = *id as i64;
                                x
                            }
                            GenericEvent::RequestTimerReset { kind, duration_ms } => {
                                let mut x = E::of("timer_reset");
                                x.k = timer_name(*kind).into();
                                x.ms = (*duration_ms).min(i32::MAX as u64) as i64;
                                x
                            }
                            GenericEvent::RequestTimerCancel(kind) => {
                                let mut x = E::of("timer_cancel");
                                x.k = timer_name(*kind).into();
                                x
                            }
                            GenericEvent::NotifyError(err) => {
                                let mut x = E::of("error");
                                x.err = format!("{:?}", err);
                                x
                            }
                            GenericEvent::RequestClose => E::of("close"),
                        })
                        .collect(),
                )
            }
            fn apply_opts(&mut self, o: &Opts) {
                if o.offline { self.set_opt("offline", true); }
                if o.auto_pub { self.set_opt("auto_pub", true); }
                if o.auto_ping { self.set_opt("auto_ping", true); }
                if o.auto_map { self.set_opt("auto_map", true); }
                if o.auto_replace { self.set_opt("auto_replace", true); }
                if let Some(v) = o.resp_timeout { self.set_resp_timeout(v as i64); }
                if let Some(v) = o.interval { let _ = self.set_interval(v.map(|x| x as i64).unwrap_or(-1)); }
            }
        }

        impl Conn for $name {
            fn role(&self) -> &'static str { $rolename }
            fn idw(&self) -> i64 { $idw }
            fn send(&mut self, p: &P) -> Result<Vec<E>, String> {
                let pk = $m::build(p)?;
                let ev = self.c.send(pk);
                Ok(self.evs(ev))
            }
            fn send_checked(&mut self, p: &P) -> Result<(Vec<E>, bool), String> {
                use mqtt::packet::v3_1_1 as v3;
                use mqtt::packet::v5_0 as v5;
                use mqtt::packet::GenericPacket as G;
                macro_rules! go {
                    ($t:ty, $x:expr, $wrap:expr) => {{
                        let x = $x;
                        let back = x.clone();
                        match <Disp<$t, $Role, $T>>::go(&mut self.c, x) {
                            Some(ev) => (ev, true),
                            None => (self.c.send($wrap(back)), false),
                        }
                    }};
                }
                let (ev, checked) = match $m::build(p)? {
                    G::V3_1_1Connect(x) => go!(v3::Connect, x, G::V3_1_1Connect),
                    G::V3_1_1Connack(x) => go!(v3::Connack, x, G::V3_1_1Connack),
                    G::V3_1_1Subscribe(x) => go!(v3::GenericSubscribe<$T>, x, G::V3_1_1Subscribe),
                    G::V3_1_1Suback(x) => go!(v3::GenericSuback<$T>, x, G::V3_1_1Suback),
                    G::V3_1_1Unsubscribe(x) => go!(v3::GenericUnsubscribe<$T>, x, G::V3_1_1Unsubscribe),
                    G::V3_1_1Unsuback(x) => go!(v3::GenericUnsuback<$T>, x, G::V3_1_1Unsuback),
                    G::V3_1_1Publish(x) => go!(v3::GenericPublish<$T>, x, G::V3_1_1Publish),
                    G::V3_1_1Puback(x) => go!(v3::GenericPuback<$T>, x, G::V3_1_1Puback),
                    G::V3_1_1Pubrec(x) => go!(v3::GenericPubrec<$T>, x, G::V3_1_1Pubrec),
                    G::V3_1_1Pubrel(x) => go!(v3::GenericPubrel<$T>, x, G::V3_1_1Pubrel),
                    G::V3_1_1Pubcomp(x) => go!(v3::GenericPubcomp<$T>, x, G::V3_1_1Pubcomp),
                    G::V3_1_1Disconnect(x) => go!(v3::Disconnect, x, G::V3_1_1Disconnect),
                    G::V3_1_1Pingreq(x) => go!(v3::Pingreq, x, G::V3_1_1Pingreq),
                    G::V3_1_1Pingresp(x) => go!(v3::Pingresp, x, G::V3_1_1Pingresp),
                    G::V5_0Connect(x) => go!(v5::Connect, x, G::V5_0Connect),
                    G::V5_0Connack(x) => go!(v5::Connack, x, G::V5_0Connack),
                    G::V5_0Subscribe(x) => go!(v5::GenericSubscribe<$T>, x, G::V5_0Subscribe),
                    G::V5_0Suback(x) => go!(v5::GenericSuback<$T>, x, G::V5_0Suback),
                    G::V5_0Unsubscribe(x) => go!(v5::GenericUnsubscribe<$T>, x, G::V5_0Unsubscribe),
                    G::V5_0Unsuback(x) => go!(v5::GenericUnsuback<$T>, x, G::V5_0Unsuback),
                    G::V5_0Publish(x) => go!(v5::GenericPublish<$T>, x, G::V5_0Publish),
                    G::V5_0Puback(x) => go!(v5::GenericPuback<$T>, x, G::V5_0Puback),
                    G::V5_0Pubrec(x) => go!(v5::GenericPubrec<$T>, x, G::V5_0Pubrec),
                    G::V5_0Pubrel(x) => go!(v5::GenericPubrel<$T>, x, G::V5_0Pubrel),
                    G::V5_0Pubcomp(x) => go!(v5::GenericPubcomp<$T>, x, G::V5_0Pubcomp),
                    G::V5_0Disconnect(x) => go!(v5::Disconnect, x, G::V5_0Disconnect),
                    G::V5_0Pingreq(x) => go!(v5::Pingreq, x, G::V5_0Pingreq),
                    G::V5_0Pingresp(x) => go!(v5::Pingresp, x, G::V5_0Pingresp),
                    G::V5_0Auth(x) => go!(v5::Auth, x, G::V5_0Auth),
                };
                Ok((self.evs(ev), checked))
            }
            fn recv_once(&mut self, bytes: &[u8], pos: usize) -> (Vec<E>, usize) {
                let mut cur = Cursor::new(bytes);
                cur.set_position(pos as u64);
                let ev = self.c.recv(&mut cur);
                let np = cur.position() as usize;
                (self.evs(ev), np)
            }
            fn fire(&mut self, k: &str) -> Vec<E> { let ev = self.c.notify_timer_fired(timer_kind(k)); self.evs(ev) }
            fn closed(&mut self) -> Vec<E> { let ev = self.c.notify_closed(); self.evs(ev) }
            fn acquire(&mut self) -> Option<i64> { self.c.acquire_packet_id().ok().map(|v| v as i64) }
            fn register(&mut self, id: i64) -> bool {
                if id < 0 || id > <$T>::MAX as i64 { return false; }
                self.c.register_packet_id(id as $T).is_ok()
            }
            fn release(&mut self, id: i64) -> Vec<E> { let ev = self.c.release_packet_id(id as $T); self.evs(ev) }
            fn erase(&mut self, id: i64) -> Vec<E> { let ev = self.c.erase_stored_publish(id as $T); self.evs(ev) }
            fn set_interval(&mut self, v: i64) -> Vec<E> {
                let a = if v < 0 { None } else { Some(v as u64) };
                self.opts.interval = Some(a);
                let ev = self.c.set_pingreq_send_interval(a);
                self.evs(ev)
            }
            fn set_resp_timeout(&mut self, v: i64) { self.opts.resp_timeout = Some(v as u64); self.c.set_pingresp_recv_timeout(v as u64); }
            fn set_opt(&mut self, name: &str, b: bool) {
                match name {
                    "offline" => { self.opts.offline = b; self.c.set_offline_publish(b) }
                    "auto_pub" => { self.opts.auto_pub = b; self.c.set_auto_pub_response(b) }
                    "auto_ping" => { self.opts.auto_ping = b; self.c.set_auto_ping_response(b) }
                    "auto_map" => { self.opts.auto_map = b; self.c.set_auto_map_topic_alias_send(b) }
                    "auto_replace" => { self.opts.auto_replace = b; self.c.set_auto_replace_topic_alias_send(b) }
                    _ => {}
                }
            }
            fn restore(&mut self, pkts: &[P]) -> Result<(), String> {
                let mut v = Vec::new();
                for p in pkts { v.push($m::to_store(p)?); }
                self.c.restore_packets(v);
                Ok(())
            }
            fn restore_qos2(&mut self, ids: &[i64]) {
                let mut h: HashSet<$T> = HashSet::default();
                for i in ids { h.insert(*i as $T); }
                self.c.restore_qos2_publish_handled(h);
            }
            fn regulate(&self, p: &P) -> Result<Result<P, String>, String> {
                match $m::build(p)? {
                    mqtt::packet::GenericPacket::V5_0Publish(x) => Ok(match self.c.regulate_for_store(x) {
                        Ok(r) => Ok($m::abs(&r.into())),
                        Err(e) => Err(format!("{:?}", e)),
                    }),
                    _ => Err("unbuildable: regulate needs a v5 publish".into()),
                }
            }
            fn encode(&self, p: &P) -> Result<Vec<u8>, String> {
                match $m::build(p) {
                    Ok(pk) => Ok(pk.to_continuous_buffer()),
                    Err(e) => raw_encode(p, $idw).ok_or(e),
                }
            }
            fn size_of(&self, p: &P) -> Option<i64> { $m::build(p).ok().map(|k| k.size() as i64) }
            fn take_wire(&mut self) -> Vec<(P, Vec<u8>)> { std::mem::take(&mut *self.wire.borrow_mut()) }
            fn obs(&self) -> Value {
                let stored: Vec<P> = self.c.get_stored_packets().iter().map(|s| $m::abs_store(s)).collect();
                let mut q: Vec<i64> = self.c.get_qos2_publish_handled().iter().map(|v| *v as i64).collect();
                q.sort();
                json!({
                    "vacancy": self.c.get_receive_maximum_vacancy_for_send().map(|v| v as i64).unwrap_or(-1),
                    "stored": stored, "qos2": q, "ver": ver_name(self.c.get_protocol_version()),
                })
            }
            fn dig(&self) -> Value {
                let s = self.c.verif_state();
                // ids in use among 1..=40 (complement of the free intervals)
                let mut used: Vec<i64> = Vec::new();
                for x in 1..=40i64 {
                    if !s.pid_free.iter().any(|(l, h)| (*l as i64) <= x && x <= (*h as i64)) { used.push(x); }
                }
                let l = |v: &Vec<$T>| -> Vec<i64> { v.iter().map(|x| *x as i64).collect() };
                let ta = |t: &Option<(u16, Vec<(u16, String)>)>| -> (i64, Vec<Value>) {
                    match t { None => (0, vec![]), Some((m, v)) => (*m as i64, v.iter().map(|(a, t)| json!({"a": *a as i64, "t": t})).collect()) }
                };
                let (tsm, ts) = ta(&s.topic_alias_send);
                let (trm, tr) = ta(&s.topic_alias_recv);
                let clamp = |v: u64| -> i64 { v.min(i32::MAX as u64) as i64 };
                json!({
                    "status": s.status, "ver": ver_name(s.protocol_version), "isClient": s.is_client,
                    "used": used, "suback": l(&s.pid_suback), "unsuback": l(&s.pid_unsuback), "puback": l(&s.pid_puback),
                    "pubrec": l(&s.pid_pubrec), "pubcomp": l(&s.pid_pubcomp), "needStore": s.need_store, "storeIds": l(&s.store_ids),
                    "offline": s.offline_publish, "autoPub": s.auto_pub_response, "autoPing": s.auto_ping_response,
                    "autoMap": s.auto_map_topic_alias_send, "autoReplace": s.auto_replace_topic_alias_send,
                    "taSendMax": tsm, "taSend": ts, "taRecvMax": trm, "taRecv": tr,
                    "sendMax": s.publish_send_max.map(|v| v as i64).unwrap_or(0), "recvMax": s.publish_recv_max.map(|v| v as i64).unwrap_or(0),
                    "sendCount": s.publish_send_count as i64, "pubRecv": l(&s.publish_recv),
                    "mpsSend": s.maximum_packet_size_send as i64, "mpsRecv": s.maximum_packet_size_recv as i64,
                    "userMs": s.pingreq_user_send_interval_ms.map(clamp).unwrap_or(-1), "kaMs": clamp(s.pingreq_keep_alive_ms),
                    "skaMs": s.pingreq_server_keep_alive_ms.map(clamp).unwrap_or(-1), "prqTimeout": clamp(s.pingreq_recv_timeout_ms),
                    "prsTimeout": clamp(s.pingresp_recv_timeout_ms), "qos2": l(&s.qos2_publish_handled),
                    "tSend": s.pingreq_send_set, "tRecv": s.pingreq_recv_set, "tResp": s.pingresp_recv_set,
                    "partial": s.packet_builder.0 != 0 || s.packet_builder.1 != 0,
                })
            }
            fn version(&self) -> String { ver_name(self.c.get_protocol_version()).to_string() }
            fn fresh_like(&self, ver: &str) -> Box<dyn Conn> {
                let mut n = $name::new(ver);
                let o = self.opts.clone();
                n.apply_opts(&o);
                Box::new(n)
            }
            fn restored_copy(&self, handled_first: bool) -> Box<dyn Conn> {
                let mut n = $name::new(ver_name(self.c.get_protocol_version()));
                let o = self.opts.clone();
                n.apply_opts(&o);
                // the API prescribes no order for the two parts of the export
                if handled_first {
                    n.c.restore_qos2_publish_handled(self.c.get_qos2_publish_handled());
                    n.c.restore_packets(self.c.get_stored_packets());
                } else {
                    n.c.restore_packets(self.c.get_stored_packets());
                    n.c.restore_qos2_publish_handled(self.c.get_qos2_publish_handled());
                }
                Box::new(n)
            }
        }
    };
}

conn_impl!(C16, mqtt::role::Client, "client", u16, 16, m16);
conn_impl!(S16, mqtt::role::Server, "server", u16, 16, m16);
conn_impl!(A16, mqtt::role::Any, "any", u16, 16, m16);
conn_impl!(C32, mqtt::role::Client, "client", u32, 32, m32);
conn_impl!(S32, mqtt::role::Server, "server", u32, 32, m32);
conn_impl!(A32, mqtt::role::Any, "any", u32, 32, m32);

pub fn new_conn(role: &str, ver: &str, idw: i64) -> Box<dyn Conn> {
    match (role, idw) {
        ("client", 16) => Box::new(C16::new(ver)),
        ("server", 16) => Box::new(S16::new(ver)),
        ("any", 16) => Box::new(A16::new(ver)),
        ("client", _) => Box::new(C32::new(ver)),
        ("server", _) => Box::new(S32::new(ver)),
        _ => Box::new(A32::new(ver)),
    }
}
