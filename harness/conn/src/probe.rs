//! Compile-time table of `checked_send`: for every (role, packet type) is `T: Sendable<Role, u16>`?
//! Read off at compile time by inherent-constant shadowing: the inherent `VAL = true` exists only when the
//! bound holds and takes precedence over the blanket trait constant `VAL = false`.
use crate::model::Call;
use mqtt_protocol_core::mqtt;
use mqtt_protocol_core::mqtt::connection::role::RoleType;
use mqtt_protocol_core::mqtt::connection::Sendable;
use std::marker::PhantomData;

pub struct Probe<T, R>(PhantomData<(T, R)>);
pub trait NotSendable {
    const VAL: bool = false;
}
impl<T, R> NotSendable for Probe<T, R> {}
impl<T: Sendable<R, u16>, R: RoleType> Probe<T, R> {
    pub const VAL: bool = true;
}

macro_rules! row {
    ($out:ident, $kind:expr, $ver:expr, $t:ty) => {
        $out.push(("client", $kind, $ver, <Probe<$t, mqtt::role::Client>>::VAL));
        $out.push(("server", $kind, $ver, <Probe<$t, mqtt::role::Server>>::VAL));
        $out.push(("any", $kind, $ver, <Probe<$t, mqtt::role::Any>>::VAL));
    };
}

pub fn table() -> Vec<(&'static str, &'static str, &'static str, bool)> {
    use mqtt::packet::v3_1_1 as v3;
    use mqtt::packet::v5_0 as v5;
    let mut t = Vec::new();
    row!(t, "connect", "v311", v3::Connect);
    row!(t, "connack", "v311", v3::Connack);
    row!(t, "publish", "v311", v3::GenericPublish<u16>);
    row!(t, "puback", "v311", v3::GenericPuback<u16>);
    row!(t, "pubrec", "v311", v3::GenericPubrec<u16>);
    row!(t, "pubrel", "v311", v3::GenericPubrel<u16>);
    row!(t, "pubcomp", "v311", v3::GenericPubcomp<u16>);
    row!(t, "subscribe", "v311", v3::GenericSubscribe<u16>);
    row!(t, "suback", "v311", v3::GenericSuback<u16>);
    row!(t, "unsubscribe", "v311", v3::GenericUnsubscribe<u16>);
    row!(t, "unsuback", "v311", v3::GenericUnsuback<u16>);
    row!(t, "pingreq", "v311", v3::Pingreq);
    row!(t, "pingresp", "v311", v3::Pingresp);
    row!(t, "disconnect", "v311", v3::Disconnect);
    row!(t, "connect", "v50", v5::Connect);
    row!(t, "connack", "v50", v5::Connack);
    row!(t, "publish", "v50", v5::GenericPublish<u16>);
    row!(t, "puback", "v50", v5::GenericPuback<u16>);
    row!(t, "pubrec", "v50", v5::GenericPubrec<u16>);
    row!(t, "pubrel", "v50", v5::GenericPubrel<u16>);
    row!(t, "pubcomp", "v50", v5::GenericPubcomp<u16>);
    row!(t, "subscribe", "v50", v5::GenericSubscribe<u16>);
    row!(t, "suback", "v50", v5::GenericSuback<u16>);
    row!(t, "unsubscribe", "v50", v5::GenericUnsubscribe<u16>);
    row!(t, "unsuback", "v50", v5::GenericUnsuback<u16>);
    row!(t, "pingreq", "v50", v5::Pingreq);
    row!(t, "pingresp", "v50", v5::Pingresp);
    row!(t, "disconnect", "v50", v5::Disconnect);
    row!(t, "auth", "v50", v5::Auth);
    t
}

pub fn calls() -> Vec<Call> {
    table()
        .into_iter()
        .map(|(role, kind, ver, ok)| {
            let mut c = Call::of("probe");
            c.role = role.into();
            c.ver = ver.into();
            c.pkt.kind = kind.into();
            c.pkt.ver = ver.into();
            c.ok = ok;
            c
        })
        .collect()
}
