//! Harness for C09 (stream framing is independent of chunking).
//!
//! For every (stream, partition) case it feeds the receive buffers to a real object — a bare
//! `PacketBuilder` (target `pb`, result kinds visible) or a real `Connection` (targets `srv311`,
//! `srv5`, `srvU`, `cli311`, `cli5`; events and `cursor.position()` visible) — calling again with
//! the same cursor while bytes remain, exactly as an application does, and records one trie node
//! per call.  The same stream is fed whole frame by whole frame to a second fresh object (the
//! "new" node of the case carries that reference run).  `spec/Trace_Framing.tla` judges the trie.
//!
//! framing-harness run [--edges FILE [--conn-stride K] [--allparts L]]
//!                     [--seed S --streams N [--parts P] [--big]]
//!                     [--schedule FILE] --out TRIE [--streams-out FILE]
use mqtt_protocol_core::mqtt;
use mqtt::common::Cursor;
use mqtt::connection::role::RoleType;
use mqtt::connection::{GenericEvent, PacketBuildResult, PacketBuilder, PacketData};
use mqtt::packet::{GenericPacket, GenericPacketTrait, Qos};
use serde_json::{json, Value};
use std::collections::HashMap;
use std::io::Write;
use vcommon::{arg, catch, read_ndjson, silence_panics, Rng, Trie};

type Ev = GenericEvent<u16>;
type Pkt = GenericPacket<u16>;

// ------------------------------------------------------------------ small helpers

fn fnv(data: &[u8]) -> u64 {
    let mut h: u64 = 0xcbf29ce484222325;
    for b in data {
        h ^= *b as u64;
        h = h.wrapping_mul(0x100000001b3);
    }
    h
}

fn hex(data: &[u8]) -> String {
    let mut s = String::with_capacity(data.len() * 2);
    for b in data {
        s.push_str(&format!("{b:02x}"));
    }
    s
}

fn unhex(s: &str) -> Vec<u8> {
    (0..s.len() / 2).map(|i| u8::from_str_radix(&s[2 * i..2 * i + 2], 16).unwrap_or(0)).collect()
}

/// digest of a body: the bytes themselves when short, else length + hash
fn digest(body: &[u8]) -> String {
    if body.len() <= 8 {
        hex(body)
    } else {
        format!("{}:{:016x}", body.len(), fnv(body))
    }
}

fn fill(a: u8, b: u8, len: usize) -> Vec<u8> {
    (0..len).map(|i| a.wrapping_add(b.wrapping_mul(i as u8))).collect()
}

fn enc_len(n: usize, w: usize) -> Vec<u8> {
    (0..w).map(|j| (((n >> (7 * j)) & 0x7f) as u8) | if j + 1 < w { 0x80 } else { 0 }).collect()
}

fn min_width(n: usize) -> usize {
    if n < 128 {
        1
    } else if n < 16384 {
        2
    } else if n < 2097152 {
        3
    } else {
        4
    }
}

// ------------------------------------------------------------------ frames and streams

#[derive(Clone)]
struct Frame {
    kind: &'static str, // ok | err | tail
    bytes: Vec<u8>,
    w: usize,                       // number of length bytes present
    fillp: Option<(u8, u8, usize)>, // the last .2 bytes are fill(.0, .1)
}

impl Frame {
    fn fh(&self) -> u8 {
        self.bytes[0]
    }
    fn lb(&self) -> &[u8] {
        &self.bytes[1..1 + self.w]
    }
    fn body(&self) -> &[u8] {
        &self.bytes[1 + self.w..]
    }
    /// a complete, well-framed packet given as bytes (first byte, length bytes, body)
    fn from_packet(bytes: Vec<u8>, fillp: Option<(u8, u8, usize)>) -> Frame {
        let mut w = 0;
        while w < 4 && 1 + w < bytes.len() {
            w += 1;
            if bytes[w] < 128 {
                break;
            }
        }
        Frame { kind: "ok", bytes, w, fillp }
    }
    fn raw(fh: u8, lb: &[u8], body: &[u8], fillp: Option<(u8, u8, usize)>) -> Frame {
        let mut bytes = vec![fh];
        bytes.extend_from_slice(lb);
        bytes.extend_from_slice(body);
        Frame { kind: "ok", bytes, w: lb.len(), fillp }
    }
    fn err5(fh: u8, lb: [u8; 4]) -> Frame {
        let mut bytes = vec![fh];
        bytes.extend_from_slice(&lb);
        Frame { kind: "err", bytes, w: 4, fillp: None }
    }
    /// same packet, Remaining Length re-encoded with width w (non-minimal when larger than needed)
    fn with_width(&self, w: usize) -> Frame {
        let n = self.body().len();
        Frame::raw(self.fh(), &enc_len(n, w), self.body(), self.fillp)
    }
    fn segs(&self) -> Value {
        match self.fillp {
            Some((a, b, len)) if len > 64 && len <= self.bytes.len() => {
                let cut = self.bytes.len() - len;
                if self.bytes[cut..] == fill(a, b, len)[..] {
                    return json!([["h", hex(&self.bytes[..cut])], ["f", a, b, len]]);
                }
                json!([["h", hex(&self.bytes)]])
            }
            _ => json!([["h", hex(&self.bytes)]]),
        }
    }
    fn from_json(v: &Value) -> Frame {
        let mut bytes = Vec::new();
        let mut fillp = None;
        for s in v["segs"].as_array().cloned().unwrap_or_default() {
            match s[0].as_str().unwrap_or("") {
                "h" => bytes.extend(unhex(s[1].as_str().unwrap_or(""))),
                "f" => {
                    let (a, b, len) = (s[1].as_u64().unwrap() as u8, s[2].as_u64().unwrap() as u8, s[3].as_u64().unwrap() as usize);
                    bytes.extend(fill(a, b, len));
                    fillp = Some((a, b, len));
                }
                _ => {}
            }
        }
        let kind = match v["k"].as_str().unwrap_or("ok") {
            "err" => "err",
            "tail" => "tail",
            _ => "ok",
        };
        let mut f = Frame::from_packet(bytes, fillp);
        f.kind = kind;
        if kind == "err" {
            f.w = 4;
        }
        if kind == "tail" {
            f.w = v["w"].as_u64().unwrap_or(f.w as u64) as usize;
        }
        f
    }
    fn to_json(&self) -> Value {
        json!({"k": self.kind, "w": self.w, "segs": self.segs()})
    }
}

fn concat(frames: &[Frame]) -> Vec<u8> {
    let mut v = Vec::new();
    for f in frames {
        v.extend_from_slice(&f.bytes);
    }
    v
}

// ------------------------------------------------------------------ targets

#[derive(Clone, Copy, PartialEq, Eq, Hash, Debug)]
enum Tg {
    Pb,
    Srv311,
    Srv5,
    SrvU,
    Cli311,
    Cli5,
}
const CONN_TARGETS: [Tg; 5] = [Tg::Srv311, Tg::Srv5, Tg::Cli311, Tg::Cli5, Tg::SrvU];

impl Tg {
    fn name(self) -> &'static str {
        match self {
            Tg::Pb => "pb",
            Tg::Srv311 => "srv311",
            Tg::Srv5 => "srv5",
            Tg::SrvU => "srvU",
            Tg::Cli311 => "cli311",
            Tg::Cli5 => "cli5",
        }
    }
    fn parse(s: &str) -> Tg {
        match s {
            "pb" => Tg::Pb,
            "srv311" => Tg::Srv311,
            "srv5" => Tg::Srv5,
            "srvU" => Tg::SrvU,
            "cli311" => Tg::Cli311,
            "cli5" => Tg::Cli5,
            _ => {
                eprintln!("unknown target {s}");
                std::process::exit(2)
            }
        }
    }
    fn v5(self) -> bool {
        matches!(self, Tg::Srv5 | Tg::SrvU | Tg::Cli5)
    }
    fn client(self) -> bool {
        matches!(self, Tg::Cli311 | Tg::Cli5)
    }
}

struct StepOut {
    res: &'static str, // complete | incomplete | error | na (recv does not expose the result kind)
    fr: Value,         // [fh, body length, body digest] of the completed frame, else []
    ev: Vec<String>,
    nerr: usize,
    npkt: usize,
}

trait Obj {
    fn step(&mut self, cur: &mut Cursor<&[u8]>) -> StepOut;
    fn hook(&self) -> (u8, usize, usize, usize);
}

struct PbObj(PacketBuilder);

impl Obj for PbObj {
    fn step(&mut self, cur: &mut Cursor<&[u8]>) -> StepOut {
        match self.0.feed(cur) {
            PacketBuildResult::Complete(p) => {
                let fh = (p.packet_type() << 4) | p.flags();
                let data = p.data_as_slice();
                let variant = match p.data {
                    PacketData::Publish(_) => "arc",
                    PacketData::Normal(_) => "vec",
                };
                let d = digest(data);
                StepOut {
                    res: "complete",
                    fr: json!([fh, p.remaining_length(), d]),
                    ev: vec![format!("complete fh={fh} n={} body={d} data={variant}", data.len())],
                    nerr: 0,
                    npkt: 1,
                }
            }
            PacketBuildResult::Incomplete => StepOut { res: "incomplete", fr: json!([]), ev: vec![], nerr: 0, npkt: 0 },
            PacketBuildResult::Error(e) => StepOut { res: "error", fr: json!([]), ev: vec![format!("error {e:?}")], nerr: 1, npkt: 0 },
        }
    }
    fn hook(&self) -> (u8, usize, usize, usize) {
        self.0.verif_state()
    }
}

/// Deterministic rendering of an event: the library's own Serialize output (shortened when long)
/// plus a hash of the wire bytes of the packet it carries.  Real-vs-real comparison only.
fn render(prefix: &str, e: &Ev) -> String {
    let js = serde_json::to_string(e).unwrap_or_else(|x| format!("serialize-error {x}"));
    let wire = match e {
        GenericEvent::NotifyPacketReceived(p) => format!("#{:016x}", fnv(&p.to_continuous_buffer())),
        GenericEvent::RequestSendPacket { packet, .. } => format!("#{:016x}", fnv(&packet.to_continuous_buffer())),
        _ => String::new(),
    };
    if js.len() <= 140 {
        format!("{prefix}{js}{wire}")
    } else {
        let head: String = js.chars().take(100).collect();
        format!("{prefix}{head}..#{}#{:016x}{wire}", js.len(), fnv(js.as_bytes()))
    }
}

struct ConnObj<R: RoleType> {
    c: mqtt::Connection<R>,
}

impl<R: RoleType> ConnObj<R> {
    fn send(&mut self, p: Pkt, out: &mut Vec<String>) {
        for e in self.c.send(p) {
            out.push(render("app:", &e));
        }
    }
    /// The application, as a deterministic function of the events: answers CONNECT with CONNACK,
    /// and starts a few exchanges after the handshake so that acknowledgements in the stream match.
    fn react(&mut self, evs: &[Ev], out: &mut Vec<String>) {
        for e in evs {
            if let GenericEvent::NotifyPacketReceived(p) = e {
                match p {
                    GenericPacket::V3_1_1Connect(_) => {
                        let ack = mqtt::packet::v3_1_1::Connack::builder()
                            .session_present(false)
                            .return_code(mqtt::result_code::ConnectReturnCode::Accepted)
                            .build()
                            .unwrap();
                        self.send(ack.into(), out);
                        self.start_exchanges(false, out);
                    }
                    GenericPacket::V5_0Connect(_) => {
                        let ack = mqtt::packet::v5_0::Connack::builder()
                            .session_present(false)
                            .reason_code(mqtt::result_code::ConnectReasonCode::Success)
                            .build()
                            .unwrap();
                        self.send(ack.into(), out);
                        self.start_exchanges(true, out);
                    }
                    GenericPacket::V3_1_1Connack(_) => {
                        self.start_subs(false, out);
                        self.start_exchanges(false, out);
                    }
                    GenericPacket::V5_0Connack(_) => {
                        self.start_subs(true, out);
                        self.start_exchanges(true, out);
                    }
                    _ => {}
                }
            }
        }
    }
    /// client only: SUBSCRIBE (id 1) and UNSUBSCRIBE (id 2)
    fn start_subs(&mut self, v5: bool, out: &mut Vec<String>) {
        let entry = mqtt::packet::SubEntry::new("t/#", mqtt::packet::SubOpts::new().set_qos(Qos::AtLeastOnce)).unwrap();
        if let Ok(pid) = self.c.acquire_packet_id() {
            let p: Pkt = if v5 {
                mqtt::packet::v5_0::Subscribe::builder().packet_id(pid).entries(vec![entry]).build().unwrap().into()
            } else {
                mqtt::packet::v3_1_1::Subscribe::builder().packet_id(pid).entries(vec![entry]).build().unwrap().into()
            };
            self.send(p, out);
        }
        if let Ok(pid) = self.c.acquire_packet_id() {
            let p: Pkt = if v5 {
                mqtt::packet::v5_0::Unsubscribe::builder().packet_id(pid).entries(vec!["t/#"]).unwrap().build().unwrap().into()
            } else {
                mqtt::packet::v3_1_1::Unsubscribe::builder().packet_id(pid).entries(vec!["t/#"]).unwrap().build().unwrap().into()
            };
            self.send(p, out);
        }
    }
    /// PUBLISH QoS 1 and QoS 2 (the next two free ids)
    fn start_exchanges(&mut self, v5: bool, out: &mut Vec<String>) {
        for qos in [Qos::AtLeastOnce, Qos::ExactlyOnce] {
            if let Ok(pid) = self.c.acquire_packet_id() {
                let p: Pkt = if v5 {
                    mqtt::packet::v5_0::Publish::builder().topic_name("c").unwrap().qos(qos).packet_id(pid).payload(b"x".to_vec()).build().unwrap().into()
                } else {
                    mqtt::packet::v3_1_1::Publish::builder().topic_name("c").unwrap().qos(qos).packet_id(pid).payload(b"x".to_vec()).build().unwrap().into()
                };
                self.send(p, out);
            }
        }
    }
}

impl<R: RoleType> Obj for ConnObj<R> {
    fn step(&mut self, cur: &mut Cursor<&[u8]>) -> StepOut {
        let evs = self.c.recv(cur);
        let mut ev: Vec<String> = evs.iter().map(|e| render("", e)).collect();
        let nerr = evs.iter().filter(|e| matches!(e, GenericEvent::NotifyError(_))).count();
        let npkt = evs.iter().filter(|e| matches!(e, GenericEvent::NotifyPacketReceived(_))).count();
        self.react(&evs, &mut ev);
        StepOut { res: "na", fr: json!([]), ev, nerr, npkt }
    }
    fn hook(&self) -> (u8, usize, usize, usize) {
        self.c.verif_state().packet_builder
    }
}

fn make(tg: Tg) -> Result<Box<dyn Obj>, String> {
    catch(move || -> Box<dyn Obj> {
        match tg {
            Tg::Pb => Box::new(PbObj(PacketBuilder::new())),
            Tg::Srv311 | Tg::Srv5 | Tg::SrvU => {
                let ver = match tg {
                    Tg::Srv311 => mqtt::Version::V3_1_1,
                    Tg::Srv5 => mqtt::Version::V5_0,
                    _ => mqtt::Version::Undetermined,
                };
                let mut c = mqtt::Connection::<mqtt::role::Server>::new(ver);
                c.set_auto_pub_response(true);
                c.set_auto_ping_response(true);
                Box::new(ConnObj { c })
            }
            Tg::Cli311 | Tg::Cli5 => {
                let v5 = tg == Tg::Cli5;
                let mut c = mqtt::Connection::<mqtt::role::Client>::new(if v5 { mqtt::Version::V5_0 } else { mqtt::Version::V3_1_1 });
                c.set_auto_pub_response(true);
                c.set_auto_ping_response(true);
                c.set_pingresp_recv_timeout(5000);
                let p: Pkt = if v5 {
                    mqtt::packet::v5_0::Connect::builder().client_id("cid1").unwrap().keep_alive(10).build().unwrap().into()
                } else {
                    mqtt::packet::v3_1_1::Connect::builder().client_id("cid1").unwrap().keep_alive(10).clean_session(true).build().unwrap().into()
                };
                let _ = c.send(p);
                Box::new(ConnObj { c })
            }
        }
    })
}

// ------------------------------------------------------------------ real packets (library-serialised)

fn props_rm() -> mqtt::packet::Properties {
    let mut props = mqtt::packet::Properties::new();
    props.push(mqtt::packet::Property::ReceiveMaximum(mqtt::packet::ReceiveMaximum::new(20).unwrap()));
    props
}

/// first frame of every connection stream
fn prologue(tg: Tg) -> Frame {
    let bytes = match tg {
        Tg::Pb | Tg::Srv311 => mqtt::packet::v3_1_1::Connect::builder().client_id("cid1").unwrap().keep_alive(10).clean_session(true).build().unwrap().to_continuous_buffer(),
        Tg::Srv5 | Tg::SrvU => mqtt::packet::v5_0::Connect::builder().client_id("cid1").unwrap().keep_alive(10).clean_start(true).props(props_rm()).build().unwrap().to_continuous_buffer(),
        Tg::Cli311 => mqtt::packet::v3_1_1::Connack::builder().session_present(false).return_code(mqtt::result_code::ConnectReturnCode::Accepted).build().unwrap().to_continuous_buffer(),
        Tg::Cli5 => mqtt::packet::v5_0::Connack::builder().session_present(false).reason_code(mqtt::result_code::ConnectReasonCode::Success).props(props_rm()).build().unwrap().to_continuous_buffer(),
    };
    Frame::from_packet(bytes, None)
}

fn publish(v5: bool, topic: &str, qos: Qos, pid: u16, payload: Vec<u8>, userprop: bool) -> Vec<u8> {
    if v5 {
        let mut b = mqtt::packet::v5_0::Publish::builder().topic_name(topic).unwrap().qos(qos).payload(payload);
        if qos != Qos::AtMostOnce {
            b = b.packet_id(pid);
        }
        if userprop {
            let mut props = mqtt::packet::Properties::new();
            props.push(mqtt::packet::Property::UserProperty(mqtt::packet::UserProperty::new("k", "v").unwrap()));
            b = b.props(props);
        }
        b.build().unwrap().to_continuous_buffer()
    } else {
        let mut b = mqtt::packet::v3_1_1::Publish::builder().topic_name(topic).unwrap().qos(qos).payload(payload);
        if qos != Qos::AtMostOnce {
            b = b.packet_id(pid);
        }
        b.build().unwrap().to_continuous_buffer()
    }
}

/// PUBLISH whose Remaining Length is exactly `n` when that is possible (else the smallest one)
fn publish_with_remaining(v5: bool, qos: Qos, pid: u16, n: usize, a: u8, b: u8, userprop: bool) -> Frame {
    let base = publish(v5, "a", qos, pid, vec![], userprop);
    let r0 = base.len() - 1 - min_width(base.len().saturating_sub(2));
    let plen = n.saturating_sub(r0);
    let bytes = publish(v5, "a", qos, pid, fill(a, b, plen), userprop);
    Frame::from_packet(bytes, Some((a, b, plen)))
}

#[derive(Default)]
struct GenState {
    next_pid: u16,
    rel: Vec<u16>,     // QoS 2 ids whose PUBREL has not been generated yet
    acks: Vec<u8>,     // pending acknowledgements of the object's own exchanges, in order
}

/// one protocol-plausible real packet for the peer of `tg`
fn gen_packet(rng: &mut Rng, tg: Tg, st: &mut GenState, big: bool) -> Frame {
    let v5 = tg.v5();
    let c = rng.below(100);
    if c < 55 {
        let qos = match rng.below(4) {
            0 | 1 => Qos::AtMostOnce,
            2 => Qos::AtLeastOnce,
            _ => Qos::ExactlyOnce,
        };
        let pid = if qos == Qos::AtMostOnce {
            0
        } else {
            st.next_pid += 1;
            100 + st.next_pid
        };
        if qos == Qos::ExactlyOnce {
            st.rel.push(pid);
        }
        let s = rng.below(100);
        let n = if s < 50 {
            rng.below(60) as usize
        } else if s < 72 {
            *rng.pick(&[126usize, 127, 128, 129])
        } else if s < 90 {
            rng.range(100, 400) as usize
        } else if s < 98 || !big {
            *rng.pick(&[16382usize, 16383, 16384, 16385])
        } else {
            *rng.pick(&[2097151usize, 2097152, 2097153])
        };
        let (a, b) = (rng.below(256) as u8, (rng.below(255) + 1) as u8);
        return publish_with_remaining(v5, qos, pid, n, a, b, v5 && rng.chance(1, 4));
    }
    if c < 65 && !st.rel.is_empty() {
        let pid = st.rel.remove(0);
        let bytes = if v5 {
            mqtt::packet::v5_0::Pubrel::builder().packet_id(pid).build().unwrap().to_continuous_buffer()
        } else {
            mqtt::packet::v3_1_1::Pubrel::builder().packet_id(pid).build().unwrap().to_continuous_buffer()
        };
        return Frame::from_packet(bytes, None);
    }
    if c < 78 {
        // keep-alive traffic
        let bytes = match (tg.client(), v5) {
            (false, false) => mqtt::packet::v3_1_1::Pingreq::new().to_continuous_buffer(),
            (false, true) => mqtt::packet::v5_0::Pingreq::new().to_continuous_buffer(),
            (true, false) => mqtt::packet::v3_1_1::Pingresp::new().to_continuous_buffer(),
            (true, true) => mqtt::packet::v5_0::Pingresp::new().to_continuous_buffer(),
        };
        return Frame::from_packet(bytes, None);
    }
    if c < 90 && !st.acks.is_empty() {
        // acknowledgements of the exchanges the application started (see ConnObj::react)
        let k = st.acks.remove(0);
        let (sub, unsub, q1, q2) = if tg.client() { (1u16, 2u16, 3u16, 4u16) } else { (0, 0, 1, 2) };
        let bytes = match (k, v5) {
            (0, false) => mqtt::packet::v3_1_1::Suback::builder().packet_id(sub).return_codes(vec![mqtt::result_code::SubackReturnCode::SuccessMaximumQos1]).build().unwrap().to_continuous_buffer(),
            (0, true) => mqtt::packet::v5_0::Suback::builder().packet_id(sub).reason_codes(vec![mqtt::result_code::SubackReasonCode::GrantedQos1]).build().unwrap().to_continuous_buffer(),
            (1, false) => mqtt::packet::v3_1_1::Unsuback::builder().packet_id(unsub).build().unwrap().to_continuous_buffer(),
            (1, true) => mqtt::packet::v5_0::Unsuback::builder().packet_id(unsub).reason_codes(vec![mqtt::result_code::UnsubackReasonCode::Success]).build().unwrap().to_continuous_buffer(),
            (2, false) => mqtt::packet::v3_1_1::Puback::builder().packet_id(q1).build().unwrap().to_continuous_buffer(),
            (2, true) => mqtt::packet::v5_0::Puback::builder().packet_id(q1).build().unwrap().to_continuous_buffer(),
            (3, false) => mqtt::packet::v3_1_1::Pubrec::builder().packet_id(q2).build().unwrap().to_continuous_buffer(),
            (3, true) => mqtt::packet::v5_0::Pubrec::builder().packet_id(q2).build().unwrap().to_continuous_buffer(),
            (_, false) => mqtt::packet::v3_1_1::Pubcomp::builder().packet_id(q2).build().unwrap().to_continuous_buffer(),
            (_, true) => mqtt::packet::v5_0::Pubcomp::builder().packet_id(q2).build().unwrap().to_continuous_buffer(),
        };
        return Frame::from_packet(bytes, None);
    }
    if !tg.client() {
        st.next_pid += 1;
        let pid = 100 + st.next_pid;
        let filt = *rng.pick(&["a/b", "x/+/y", "#", "long/topic/filter/with/several/levels/0123456789"]);
        let bytes = if rng.chance(1, 2) {
            let entry = mqtt::packet::SubEntry::new(filt, mqtt::packet::SubOpts::new().set_qos(Qos::AtLeastOnce)).unwrap();
            if v5 {
                mqtt::packet::v5_0::Subscribe::builder().packet_id(pid).entries(vec![entry]).build().unwrap().to_continuous_buffer()
            } else {
                mqtt::packet::v3_1_1::Subscribe::builder().packet_id(pid).entries(vec![entry]).build().unwrap().to_continuous_buffer()
            }
        } else if v5 {
            mqtt::packet::v5_0::Unsubscribe::builder().packet_id(pid).entries(vec![filt]).unwrap().build().unwrap().to_continuous_buffer()
        } else {
            mqtt::packet::v3_1_1::Unsubscribe::builder().packet_id(pid).entries(vec![filt]).unwrap().build().unwrap().to_continuous_buffer()
        };
        return Frame::from_packet(bytes, None);
    }
    publish_with_remaining(v5, Qos::AtMostOnce, 0, rng.below(40) as usize, 7, 3, false)
}

/// an invalid or unusual frame
fn gen_odd(rng: &mut Rng, prev: Option<&Frame>) -> Frame {
    match rng.below(6) {
        0 | 1 => Frame::err5(
            *rng.pick(&[0x30u8, 0xC0, 0x10, 0x00, 0xF0, 0x82]),
            [0x80 | rng.below(128) as u8, 0x80 | rng.below(128) as u8, 0x80 | rng.below(128) as u8, 0x80 | rng.below(128) as u8],
        ),
        2 | 3 => match prev {
            // a real packet with a non-minimal Remaining Length
            Some(p) if p.kind == "ok" && p.w < 4 => p.with_width(p.w + 1 + rng.below((4 - p.w) as u64) as usize),
            _ => Frame::raw(0xC0, &[0x80, 0x00], &[], None),
        },
        4 => {
            let n = rng.below(6) as usize;
            Frame::raw(rng.below(256) as u8, &enc_len(n, 1), &fill(rng.below(256) as u8, 1, n), None)
        }
        _ => Frame::raw(*rng.pick(&[0x00u8, 0xF0, 0x31, 0xD0]), &[0x00], &[], None),
    }
}

fn gen_stream(rng: &mut Rng, tg: Tg, count: usize, big: bool) -> Vec<Frame> {
    let mut st = GenState { next_pid: 0, rel: vec![], acks: if tg.client() { vec![0, 1, 2, 3, 4] } else { vec![2, 3, 4] } };
    let mut frames = vec![prologue(tg)];
    let odd_from = count * 3 / 5; // invalid frames mostly in the later part: they make the peer close
    while frames.len() < count {
        let i = frames.len();
        let p_odd = if i >= odd_from { 12 } else { 2 };
        if rng.below(100) < p_odd {
            let f = gen_odd(rng, frames.last());
            frames.push(f);
        } else {
            frames.push(gen_packet(rng, tg, &mut st, big));
        }
    }
    if rng.chance(1, 6) {
        // a truncated last frame: never completes
        let f = gen_packet(rng, tg, &mut st, false);
        if f.bytes.len() > 2 {
            let keep = 1 + rng.below((f.bytes.len() - 1) as u64) as usize;
            let w = f.w.min(keep - 1);
            frames.push(Frame { kind: "tail", bytes: f.bytes[..keep].to_vec(), w, fillp: None });
        }
    } else if rng.chance(1, 10) {
        // a frame announcing a huge body (non-minimal 4-byte length) that never arrives
        frames.push(Frame { kind: "tail", bytes: vec![0x30, 0xff, 0xff, 0xff, 0x7f, 1, 2, 3], w: 4, fillp: None });
    }
    frames
}

fn gen_cuts(rng: &mut Rng, frames: &[Frame], total: usize) -> Vec<usize> {
    // (start, end of header, end) of every frame
    let mut spans: Vec<(usize, usize, usize)> = vec![];
    let mut o = 0;
    for f in frames {
        spans.push((o, o + 1 + f.w, o + f.bytes.len()));
        o += f.bytes.len();
    }
    let style = rng.below(5);
    let mut cuts = vec![];
    let mut off = 0;
    let mut fi = 0;
    while off < total {
        while spans[fi].2 <= off {
            fi += 1;
        }
        let (_start, hend, end) = spans[fi];
        let rest = total - off;
        let body_left = end - off;
        let mut len = if off >= hend && body_left > 12 && style != 1 {
            // inside a long body: do not crawl through it byte by byte
            match rng.below(7) {
                0 => body_left - 1 - rng.below(3) as usize,          // stop just before the end of the frame
                1 => body_left,                                       // exactly at the end
                2 => body_left + 1 + rng.below(7) as usize,           // into the next header
                3 => 1 + rng.below(body_left as u64) as usize,        // somewhere inside
                4 => 1 + rng.below(3) as usize,                       // a tiny piece
                5 => body_left + rng.below(300) as usize,             // across the following packets
                _ => 1 + rng.below(64) as usize,
            }
        } else {
            match style {
                0 => 1 + rng.below(3) as usize,    // tiny pieces
                1 => 1 + rng.below(3000) as usize, // many packets per buffer
                2 => {
                    // up to a point next to the end of this header / this frame
                    let target = (*rng.pick(&[hend, end, end + 1]) as i64 + rng.range(-2, 2)).max(off as i64 + 1) as usize;
                    target - off
                }
                3 => match rng.below(4) {
                    0 => 1,
                    1 => 1 + rng.below(8) as usize,
                    2 => 1 + rng.below(200) as usize,
                    _ => 1 + rng.below(20000) as usize,
                },
                _ => 1 + rng.below(64) as usize,
            }
        };
        if rng.chance(1, 40) {
            len = 0; // an empty receive buffer
        }
        let len = len.min(rest);
        cuts.push(len);
        off += len;
    }
    cuts
}

// ------------------------------------------------------------------ execution

#[derive(Default)]
struct Stats {
    cases: u64,
    calls: u64,
    ref_calls: u64,
    streams: u64,
    res: HashMap<String, u64>,
    entry_phase: [u64; 3],
    widths_completed: [u64; 5],
    nonminimal_completed: u64,
    zero_len_completed: u64,
    err5_seen: u64,
    resync_after_err5: u64,
    empty_buffers: u64,
    midframe_calls: u64,
    midframe_nodes: u64,
    multi_frame_buffers: u64,
    panics: u64,
    gen_panics: u64,
    stalls: u64,
    nondet: Vec<String>,
    max_frame: usize,
}

struct Ctx {
    trie: Trie,
    newnodes: HashMap<String, usize>,
    streams_out: Option<std::io::BufWriter<std::fs::File>>,
    st: Stats,
}

fn blank(op: &str, tg: &str) -> serde_json::Map<String, Value> {
    json!({
        "op": op, "tg": tg,
        "frames": [], "ends": [], "refall": [], "refcum": [], "refadv": [], "refpanic": false,
        "ci": 0, "blen": 0, "pos0": 0, "pos1": 0, "hd": [], "res": "na", "fr": [], "hook": [0, 0, 0, 0],
        "ev": [], "nerr": 0, "npkt": 0, "panic": false, "msg": "", "last": false, "stall": false
    })
    .as_object()
    .cloned()
    .unwrap()
}

/// the same stream fed whole frame by whole frame to a fresh object
fn reference(tg: Tg, frames: &[Frame], st: &mut Stats) -> (Vec<String>, Vec<usize>, Vec<usize>, Option<String>) {
    let mut refall = vec![];
    let mut refcum = vec![];
    let mut refadv = vec![];
    let mut obj = match make(tg) {
        Ok(o) => o,
        Err(m) => return (refall, refcum, refadv, Some(m)),
    };
    for f in frames {
        let buf: &[u8] = &f.bytes;
        let mut cur = Cursor::new(buf);
        let mut calls = 0;
        loop {
            calls += 1;
            st.ref_calls += 1;
            match catch(|| obj.step(&mut cur)) {
                Ok(o) => refall.extend(o.ev),
                Err(m) => return (refall, refcum, refadv, Some(m)),
            }
            if calls == 1 {
                refadv.push(cur.position() as usize);
            }
            if cur.position() as usize >= buf.len() || calls > 2 * buf.len() + 8 {
                break;
            }
        }
        refcum.push(refall.len());
    }
    (refall, refcum, refadv, None)
}

fn ensure_new(ctx: &mut Ctx, tg: Tg, frames: &[Frame]) -> usize {
    let bytes = concat(frames);
    let sizes: Vec<String> = frames.iter().map(|f| format!("{}{}", &f.kind[..1], f.bytes.len())).collect();
    let key = format!("new {} {:016x} {} {:016x}", tg.name(), fnv(&bytes), bytes.len(), fnv(sizes.join(",").as_bytes()));
    if let Some(id) = ctx.newnodes.get(&key) {
        return *id;
    }
    ctx.st.streams += 1;
    let (refall, refcum, refadv, refpanic) = reference(tg, frames, &mut ctx.st);
    let mut ends = vec![];
    let mut o = 0;
    for f in frames {
        o += f.bytes.len();
        ends.push(o);
        ctx.st.max_frame = ctx.st.max_frame.max(f.bytes.len());
    }
    let mut b = blank("new", tg.name());
    b.insert(
        "frames".into(),
        Value::Array(frames.iter().map(|f| json!([f.kind, f.fh(), f.lb(), f.body().len(), digest(f.body())])).collect()),
    );
    b.insert("ends".into(), json!(ends));
    b.insert("refall".into(), json!(refall));
    b.insert("refcum".into(), json!(refcum));
    b.insert("refadv".into(), json!(refadv));
    b.insert("refpanic".into(), json!(refpanic.is_some()));
    b.insert("msg".into(), json!(refpanic.unwrap_or_default()));
    let id = match ctx.trie.child(0, &key, Value::Object(b)) {
        Ok((id, _)) => id,
        Err(e) => {
            ctx.st.nondet.push(e);
            0
        }
    };
    ctx.newnodes.insert(key, id);
    if let Some(w) = ctx.streams_out.as_mut() {
        let line = json!({"node": id, "tg": tg.name(), "frames": frames.iter().map(|f| f.to_json()).collect::<Vec<_>>()});
        let _ = writeln!(w, "{line}");
    }
    id
}

fn run_case(ctx: &mut Ctx, tg: Tg, frames: &[Frame], cuts_in: &[usize]) {
    let new_id = ensure_new(ctx, tg, frames);
    if new_id == 0 {
        return;
    }
    let bytes = concat(frames);
    let total = bytes.len();
    let mut cuts: Vec<usize> = vec![];
    let mut sum = 0;
    for c in cuts_in {
        let c = (*c).min(total - sum);
        cuts.push(c);
        sum += c;
    }
    if sum < total {
        cuts.push(total - sum);
    }
    let mut ends = vec![];
    let mut o = 0;
    for f in frames {
        o += f.bytes.len();
        ends.push(o);
    }
    ctx.st.cases += 1;
    let mut obj = match make(tg) {
        Ok(o) => o,
        Err(_) => return, // reported through refpanic of the new node
    };
    let mut node = new_id;
    let mut off = 0usize;
    let mut prev_hook = (0u8, 0usize, 0usize, 0usize);
    let mut after_err = false;
    for (ci, &len) in cuts.iter().enumerate() {
        let buf: &[u8] = &bytes[off..off + len];
        let mut cur = Cursor::new(buf);
        let mut calls = 0usize;
        let mut completed_here = 0;
        if len == 0 {
            ctx.st.empty_buffers += 1;
        }
        loop {
            let pos0 = cur.position() as usize;
            let hd: Vec<u8> = if pos0 <= len { buf[pos0..len.min(pos0 + 5)].to_vec() } else { vec![] };
            let r = catch(|| obj.step(&mut cur));
            calls += 1;
            ctx.st.calls += 1;
            let pos1 = cur.position() as usize;
            let goff = off + pos1;
            let mut b = blank("call", tg.name());
            b.insert("ci".into(), json!(ci + 1));
            b.insert("blen".into(), json!(len));
            b.insert("pos0".into(), json!(pos0));
            b.insert("pos1".into(), json!(pos1));
            b.insert("hd".into(), json!(hd));
            let is_last_chunk = ci + 1 == cuts.len();
            match r {
                Err(msg) => {
                    ctx.st.panics += 1;
                    b.insert("panic".into(), json!(true));
                    b.insert("msg".into(), json!(msg));
                    let key = format!("c{} {} {} panic", ci + 1, len, pos0);
                    if let Err(e) = ctx.trie.child(node, &key, Value::Object(b)) {
                        ctx.st.nondet.push(e);
                    }
                    return;
                }
                Ok(out) => {
                    let hook = catch(|| obj.hook()).unwrap_or((9, 0, 0, 0));
                    let done_buf = pos1 >= len;
                    let stall = !done_buf && calls > 2 * len + 8;
                    let last = is_last_chunk && (done_buf || stall);
                    // coverage statistics (harness-side; the verdict is TLC's)
                    *ctx.st.res.entry(out.res.to_string()).or_insert(0) += 1;
                    ctx.st.entry_phase[(prev_hook.0 as usize).min(2)] += 1;
                    if prev_hook.0 != 0 && len > 0 {
                        ctx.st.midframe_calls += 1;
                    }
                    if let Ok(k) = ends.binary_search(&goff) {
                        if pos1 > pos0 {
                            let f = &frames[k];
                            if f.kind == "ok" {
                                ctx.st.widths_completed[f.w] += 1;
                                if f.w > min_width(f.body().len()) {
                                    ctx.st.nonminimal_completed += 1;
                                }
                                if f.body().is_empty() {
                                    ctx.st.zero_len_completed += 1;
                                }
                                if after_err {
                                    ctx.st.resync_after_err5 += 1;
                                }
                                after_err = false;
                            } else if f.kind == "err" {
                                ctx.st.err5_seen += 1;
                                after_err = true;
                            }
                            completed_here += 1;
                        }
                    }
                    b.insert("res".into(), json!(out.res));
                    b.insert("fr".into(), out.fr);
                    b.insert("hook".into(), json!([hook.0, hook.1, hook.2, hook.3]));
                    b.insert("ev".into(), json!(out.ev));
                    b.insert("nerr".into(), json!(out.nerr));
                    b.insert("npkt".into(), json!(out.npkt));
                    b.insert("last".into(), json!(last));
                    b.insert("stall".into(), json!(stall));
                    let entered_mid = prev_hook.0 != 0 && len > 0;
                    prev_hook = hook;
                    let key = format!("c{} {} {} {}", ci + 1, len, pos0, last);
                    match ctx.trie.child(node, &key, Value::Object(b)) {
                        Ok((id, is_new)) => {
                            node = id;
                            if is_new && entered_mid {
                                ctx.st.midframe_nodes += 1;
                            }
                        }
                        Err(e) => {
                            ctx.st.nondet.push(e);
                            return;
                        }
                    }
                    if stall {
                        ctx.st.stalls += 1;
                        return;
                    }
                    if done_buf {
                        break;
                    }
                }
            }
        }
        if completed_here > 1 {
            ctx.st.multi_frame_buffers += 1;
        }
        off += len;
    }
}

// ------------------------------------------------------------------ MC edges

/// abstract frame of MC_Framing -> raw frame; `idx` is its 1-based position in the stream
fn abstract_frame(v: &Value, idx: usize) -> Frame {
    let fh = v["fh"].as_u64().unwrap() as u8;
    let lb: Vec<u8> = v["lb"].as_array().unwrap().iter().map(|x| x.as_u64().unwrap() as u8).collect();
    let n = v["n"].as_u64().unwrap() as usize;
    if v["k"].as_str() == Some("err") {
        return Frame::err5(fh, [lb[0], lb[1], lb[2], lb[3]]);
    }
    let (a, b) = ((idx * 64 + 1) as u8, 1u8);
    Frame::raw(fh, &lb, &fill(a, b, n), Some((a, b, n)))
}

/// the same abstract frame for a connection target: a real packet of that body length where the
/// library can produce one (PUBLISH for first byte 0x30, PINGREQ/PINGRESP for 0xC0 with empty
/// body), with the abstract frame's length encoding; else the raw frame
fn concretise(v: &Value, idx: usize, tg: Tg) -> Frame {
    let raw = abstract_frame(v, idx);
    if raw.kind != "ok" {
        return raw;
    }
    let n = raw.body().len();
    if raw.fh() == 0x30 {
        let real = publish_with_remaining(tg.v5(), Qos::AtMostOnce, 0, n, (idx * 64 + 1) as u8, 1, false);
        if real.body().len() == n {
            return real.with_width(raw.w);
        }
    } else if raw.fh() == 0xC0 && n == 0 {
        let fh = if tg.client() { 0xD0 } else { 0xC0 };
        return Frame::raw(fh, raw.lb(), &[], None);
    }
    raw
}

/// prologue + the concretised frames of one MC edge for a connection target
fn conn_frames(fr: &[Value], tg: Tg) -> Vec<Frame> {
    let mut frames = vec![prologue(tg)];
    frames.extend(fr.iter().enumerate().map(|(k, v)| concretise(v, k + 1, tg)));
    frames
}

fn compositions(total: usize, f: &mut dyn FnMut(&[usize])) {
    // every way of writing `total` as an ordered sum of positive integers
    if total == 0 {
        f(&[]);
        return;
    }
    for mask in 0u32..(1u32 << (total - 1)) {
        let mut cuts = vec![];
        let mut run = 1;
        for i in 0..total - 1 {
            if mask & (1 << i) != 0 {
                cuts.push(run);
                run = 1;
            } else {
                run += 1;
            }
        }
        cuts.push(run);
        f(&cuts);
    }
}

fn main() {
    let args: Vec<String> = std::env::args().collect();
    silence_panics();
    let out = arg(&args, "--out").unwrap_or_else(|| {
        eprintln!("--out required");
        std::process::exit(2)
    });
    let streams_out = arg(&args, "--streams-out").map(|p| std::io::BufWriter::new(std::fs::File::create(p).expect("streams-out")));
    let mut ctx = Ctx {
        trie: Trie::new(Value::Object(blank("root", "-"))),
        newnodes: HashMap::new(),
        streams_out,
        st: Stats::default(),
    };

    if let Some(edges) = arg(&args, "--edges") {
        let conn_stride: usize = arg(&args, "--conn-stride").map(|s| s.parse().unwrap()).unwrap_or(1);
        let allparts: usize = arg(&args, "--allparts").map(|s| s.parse().unwrap()).unwrap_or(0);
        let allparts_stride: usize = arg(&args, "--allparts-stride").map(|s| s.parse().unwrap()).unwrap_or(1);
        let mut seen_streams: HashMap<String, bool> = HashMap::new();
        let mut nstream = 0usize;
        for (i, e) in read_ndjson(&edges).iter().enumerate() {
            let fr = e["frames"].as_array().expect("frames");
            let cuts: Vec<usize> = e["cuts"].as_array().expect("cuts").iter().map(|x| x.as_u64().unwrap() as usize).collect();
            let raw: Vec<Frame> = fr.iter().enumerate().map(|(k, v)| abstract_frame(v, k + 1)).collect();
            run_case(&mut ctx, Tg::Pb, &raw, &cuts);
            if i % conn_stride == 0 {
                let tg = CONN_TARGETS[(i / conn_stride) % CONN_TARGETS.len()];
                match catch(|| conn_frames(fr, tg)) {
                    Ok(frames) => {
                        let mut c2 = vec![frames[0].bytes.len()];
                        c2.extend_from_slice(&cuts);
                        run_case(&mut ctx, tg, &frames, &c2);
                    }
                    Err(_) => ctx.st.gen_panics += 1,
                }
            }
            let total: usize = raw.iter().map(|f| f.bytes.len()).sum();
            if allparts > 0 && total <= allparts {
                let key = hex(&concat(&raw));
                if seen_streams.insert(key, true).is_none() {
                    nstream += 1;
                    if nstream % allparts_stride == 0 {
                        let tg = CONN_TARGETS[(nstream / allparts_stride) % CONN_TARGETS.len()];
                        let frames = catch(|| conn_frames(fr, tg)).ok();
                        if frames.is_none() {
                            ctx.st.gen_panics += 1;
                        }
                        let mut list: Vec<Vec<usize>> = vec![];
                        compositions(total, &mut |c| list.push(c.to_vec()));
                        for c in &list {
                            run_case(&mut ctx, Tg::Pb, &raw, c);
                            if let Some(frames) = &frames {
                                let mut c2 = vec![frames[0].bytes.len()];
                                c2.extend_from_slice(c);
                                run_case(&mut ctx, tg, frames, &c2);
                            }
                        }
                    }
                }
            }
        }
    }

    if let Some(sched) = arg(&args, "--schedule") {
        for e in read_ndjson(&sched) {
            let tg = Tg::parse(e["tg"].as_str().unwrap_or("pb"));
            let frames: Vec<Frame> = e["frames"].as_array().expect("frames").iter().map(Frame::from_json).collect();
            let cuts: Vec<usize> = e["cuts"].as_array().expect("cuts").iter().map(|x| x.as_u64().unwrap() as usize).collect();
            run_case(&mut ctx, tg, &frames, &cuts);
        }
    }

    if let Some(seed) = arg(&args, "--seed") {
        let seed: u64 = seed.parse().unwrap_or(1);
        let n: usize = arg(&args, "--streams").map(|s| s.parse().unwrap()).unwrap_or(10);
        let parts: usize = arg(&args, "--parts").map(|s| s.parse().unwrap()).unwrap_or(2);
        let count: usize = arg(&args, "--packets").map(|s| s.parse().unwrap()).unwrap_or(50);
        let big = args.iter().any(|a| a == "--big");
        let mut rng = Rng::new(seed);
        for i in 0..n {
            let tg = CONN_TARGETS[i % CONN_TARGETS.len()];
            let npk = count.saturating_sub(5).max(2) + rng.below(11) as usize;
            // packet builders and serialisers are library code too: a panic there must not kill the run
            let frames = match catch(|| gen_stream(&mut rng, tg, npk, big && i % 7 == 3)) {
                Ok(f) => f,
                Err(_) => {
                    ctx.st.gen_panics += 1;
                    continue;
                }
            };
            let total: usize = frames.iter().map(|f| f.bytes.len()).sum();
            // the frame-by-frame partition is itself a case
            let by_frame: Vec<usize> = frames.iter().map(|f| f.bytes.len()).collect();
            run_case(&mut ctx, tg, &frames, &by_frame);
            run_case(&mut ctx, Tg::Pb, &frames, &by_frame);
            for _ in 0..parts {
                let cuts = gen_cuts(&mut rng, &frames, total);
                run_case(&mut ctx, tg, &frames, &cuts);
                run_case(&mut ctx, Tg::Pb, &frames, &cuts);
            }
        }
    }

    if let Err(e) = ctx.trie.write(&out) {
        eprintln!("write {out}: {e}");
        std::process::exit(2);
    }
    if let Some(w) = ctx.streams_out.as_mut() {
        let _ = w.flush();
    }
    let s = &ctx.st;
    println!(
        "{}",
        json!({
            "nodes": ctx.trie.len(), "leaves": ctx.trie.leaves(), "cases": s.cases, "calls": s.calls, "ref_calls": s.ref_calls,
            "streams": s.streams, "res": s.res, "entry_phase": s.entry_phase, "widths_completed": s.widths_completed[1..],
            "nonminimal_completed": s.nonminimal_completed, "zero_len_completed": s.zero_len_completed,
            "err5_seen": s.err5_seen, "resync_after_err5": s.resync_after_err5, "empty_buffers": s.empty_buffers,
            "midframe_calls": s.midframe_calls, "midframe_nodes": s.midframe_nodes, "multi_frame_buffers": s.multi_frame_buffers,
            "panics": s.panics, "gen_panics": s.gen_panics, "stalls": s.stalls, "max_frame": s.max_frame, "nondeterministic": s.nondet,
        })
    );
}
