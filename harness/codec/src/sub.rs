//! The sub-parsers named by C04 (Property::parse, Properties::parse, SubEntry::parse,
//! MqttString/MqttBinary::decode, VariableByteInteger::decode_stream) wrapped as `Pk` so that the
//! same totality / self-consistency record is produced for them.
use crate::pk::{bytes_to_runs, hl, prop_fields, props_fields, Pk, R};
use mqtt_protocol_core::mqtt::packet::{
    DecodeResult, MqttBinary, MqttString, Properties, PropertiesParse, PropertiesSize, Property,
    SubEntry, VariableByteInteger,
};
use serde_json::{json, Value};
use std::any::Any;

fn vbi_bytes(mut n: usize) -> Vec<u8> {
    let mut out = Vec::new();
    loop {
        let mut b = (n % 128) as u8;
        n /= 128;
        if n > 0 {
            b |= 0x80;
        }
        out.push(b);
        if n == 0 {
            break;
        }
    }
    out
}

macro_rules! common {
    () => {
        fn as_any(&self) -> &dyn Any {
            self
        }
        fn eq_dyn(&self, o: &dyn Pk) -> bool {
            o.as_any().downcast_ref::<Self>().map_or(false, |x| x.0 == self.0)
        }
        fn framed(&self) -> bool {
            false
        }
    };
}

struct XProp(Property);
impl Pk for XProp {
    common!();
    fn size(&self) -> usize {
        self.0.size()
    }
    fn cont(&self) -> Vec<u8> {
        self.0.to_continuous_buffer()
    }
    fn vecs(&self) -> Vec<u8> {
        let mut out = Vec::new();
        for s in self.0.to_buffers() {
            out.extend_from_slice(&s);
        }
        out
    }
    fn fields(&self) -> Value {
        json!({"k": "x-prop", "q": prop_fields(&self.0)})
    }
}

/// Properties::parse consumes the Property Length prefix which the list itself does not
/// serialise; the wrapper writes it back (harness-side) so that the round trip is comparable.
struct XProps(Properties);
impl Pk for XProps {
    common!();
    fn size(&self) -> usize {
        vbi_bytes(self.0.size()).len() + self.0.size()
    }
    fn cont(&self) -> Vec<u8> {
        use mqtt_protocol_core::mqtt::packet::prelude::*;
        let mut out = vbi_bytes(self.0.size());
        let mut body = Vec::new();
        for p in &self.0 {
            body.extend_from_slice(&p.to_continuous_buffer());
        }
        out.extend_from_slice(&body);
        out
    }
    fn vecs(&self) -> Vec<u8> {
        let mut out = vbi_bytes(self.0.size());
        for p in &self.0 {
            for s in p.to_buffers() {
                out.extend_from_slice(&s);
            }
        }
        out
    }
    fn fields(&self) -> Value {
        json!({"k": "x-props", "ps": props_fields(&self.0)})
    }
}

struct XSub(SubEntry);
impl Pk for XSub {
    common!();
    fn size(&self) -> usize {
        self.0.size()
    }
    fn cont(&self) -> Vec<u8> {
        self.0.to_continuous_buffer()
    }
    fn vecs(&self) -> Vec<u8> {
        let mut out = Vec::new();
        for s in self.0.to_buffers() {
            out.extend_from_slice(&s);
        }
        out
    }
    fn fields(&self) -> Value {
        let o = self.0.sub_opts();
        json!({"k": "x-subentry", "filter": bytes_to_runs(self.0.topic_filter().as_bytes()), "qos": o.qos() as u8,
               "nl": o.nl(), "rap": o.rap(), "rh": o.rh() as u8})
    }
}

struct XStr(MqttString);
impl Pk for XStr {
    common!();
    fn size(&self) -> usize {
        self.0.size()
    }
    fn cont(&self) -> Vec<u8> {
        self.0.to_continuous_buffer()
    }
    fn vecs(&self) -> Vec<u8> {
        let mut out = Vec::new();
        for s in self.0.to_buffers() {
            out.extend_from_slice(&s);
        }
        out
    }
    fn fields(&self) -> Value {
        json!({"k": "x-string", "s": bytes_to_runs(self.0.as_str().as_bytes()), "len": self.0.len()})
    }
}

struct XBin(MqttBinary);
impl Pk for XBin {
    common!();
    fn size(&self) -> usize {
        self.0.size()
    }
    fn cont(&self) -> Vec<u8> {
        self.0.to_continuous_buffer()
    }
    fn vecs(&self) -> Vec<u8> {
        let mut out = Vec::new();
        for s in self.0.to_buffers() {
            out.extend_from_slice(&s);
        }
        out
    }
    fn fields(&self) -> Value {
        json!({"k": "x-binary", "s": bytes_to_runs(self.0.as_slice()), "len": self.0.len()})
    }
}

struct XVbi(VariableByteInteger);
impl Pk for XVbi {
    common!();
    fn size(&self) -> usize {
        self.0.size()
    }
    fn cont(&self) -> Vec<u8> {
        self.0.to_continuous_buffer()
    }
    fn vecs(&self) -> Vec<u8> {
        let mut out = Vec::new();
        for s in self.0.to_buffers() {
            out.extend_from_slice(&s);
        }
        out
    }
    fn fields(&self) -> Value {
        json!({"k": "x-vbi", "n": hl(self.0.to_u32())})
    }
}

fn bx<T: Pk + 'static>(x: T) -> Box<dyn Pk> {
    Box::new(x)
}

pub fn parse(k: &str, body: &[u8]) -> R<(Box<dyn Pk>, usize)> {
    let d = |x| format!("{x:?}");
    match k {
        "x-prop" => Property::parse(body).map(|(p, n)| (bx(XProp(p)), n)).map_err(d),
        "x-props" => Properties::parse(body).map(|(p, n)| (bx(XProps(p)), n)).map_err(d),
        "x-subentry" => SubEntry::parse(body).map(|(p, n)| (bx(XSub(p)), n)).map_err(d),
        "x-string" => MqttString::decode(body).map(|(p, n)| (bx(XStr(p)), n)).map_err(d),
        "x-binary" => MqttBinary::decode(body).map(|(p, n)| (bx(XBin(p)), n)).map_err(d),
        "x-vbi" => match VariableByteInteger::decode_stream(body) {
            DecodeResult::Ok(v, n) => Ok((bx(XVbi(v)), n)),
            DecodeResult::Incomplete => Err("Incomplete".into()),
            DecodeResult::Err(m) => Err(m.to_string()),
        },
        _ => Err(format!("unknown sub-parser {k}")),
    }
}
