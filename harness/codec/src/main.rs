//! Harness for the codec properties C02, C03, C04, C18.
//!
//!   codec-harness vec --vectors FILE --out TRIE [--threads N]
//!       one abstract packet per line (`{"p":..,"enc":[segments],"size":n,..}` printed by TLC from
//!       spec/MC_Codec.tla): build it with the public builder, record size / contiguous bytes /
//!       vectored bytes / re-parse / accessors, compare with the reference bytes, and parse the
//!       REFERENCE bytes.
//!   codec-harness c04 --vectors FILE --out TRIE [--exhaust L] [--random N] [--seed S]
//!       one parser input per line (`{"k","v","w","flags","body":[..],"op","reject"}`), plus
//!       harness-generated exhaustive short strings, random strings and multi-edit mutants.
//!       Every input is fed to the parser; accepted (or panicking) inputs are recorded.
//!
//! Output: NDJSON, node 0 = root listing every record as a child; judged by spec/Trace_Codec.tla.
//! Every call into the library runs under `vcommon::catch`: a panic is data.
mod pk;
mod sub;

use pk::bytes_to_runs;
use serde_json::{json, Map, Value};
use std::collections::BTreeMap;
use std::io::{BufWriter, Write};
use vcommon::{arg, catch, read_ndjson, silence_panics, Rng};

fn expand_segments(enc: &Value) -> Vec<u8> {
    let mut out = Vec::new();
    for s in enc.as_array().cloned().unwrap_or_default() {
        match s[0].as_str() {
            Some("b") => {
                for b in s[1].as_array().cloned().unwrap_or_default() {
                    out.push(b.as_u64().unwrap_or(0) as u8);
                }
            }
            Some("r") => {
                let b = s[1].as_u64().unwrap_or(0) as u8;
                let c = s[2].as_u64().unwrap_or(0) as usize;
                out.resize(out.len() + c, b);
            }
            _ => {}
        }
    }
    out
}

/// (length of the Remaining Length field, its value), decoded by the harness's own reader.
fn split_header(b: &[u8]) -> Option<(usize, usize)> {
    let mut mult = 1usize;
    let mut val = 0usize;
    for i in 0..4 {
        let x = *b.get(1 + i)?;
        val += (x & 0x7f) as usize * mult;
        if x & 0x80 == 0 {
            return Some((i + 1, val));
        }
        mult *= 128;
    }
    None
}

fn first_diff(a: &[u8], b: &[u8]) -> i64 {
    let n = a.len().min(b.len());
    for i in 0..n {
        if a[i] != b[i] {
            return i as i64;
        }
    }
    if a.len() == b.len() {
        -1
    } else {
        n as i64
    }
}

fn none_fields() -> Value {
    json!({"k": "none"})
}

struct Panics(Vec<String>);
impl Panics {
    fn run<T>(&mut self, what: &str, f: impl FnOnce() -> T) -> Option<T> {
        match catch(f) {
            Ok(x) => Some(x),
            Err(m) => {
                self.0.push(format!("{what}: {m}"));
                None
            }
        }
    }
    fn text(&self) -> String {
        self.0.join(" | ")
    }
}

// ------------------------------------------------------------------ vec mode (C02, C03, C18)

fn vec_one(v: &Value) -> Value {
    let p = &v["p"];
    let k = p["k"].as_str().unwrap_or("").to_string();
    let ver = p["v"].as_str().unwrap_or("").to_string();
    let w = p["w"].as_u64().unwrap_or(16);
    let reference = expand_segments(&v["enc"]);
    let mut pn = Panics(vec![]);
    let mut m = Map::new();
    m.insert("p".into(), p.clone());
    if let Some(c) = v.get("cell") {
        m.insert("cell".into(), c.clone());
    }
    m.insert("ref_len".into(), json!(reference.len()));

    // ---- builder path
    let built = pn.run("build", || pk::build(p));
    let (pkt, berr) = match built {
        Some(Ok(x)) => (Some(x), String::new()),
        Some(Err(msg)) => (None, msg),
        None => (None, "panic".into()),
    };
    m.insert("built".into(), json!(pkt.is_some()));
    m.insert("berr".into(), json!(berr));
    let mut size = 0usize;
    let mut cont: Vec<u8> = vec![];
    let mut vec_equal = false;
    let mut vec_len = 0usize;
    let mut fields = none_fields();
    let mut rp_ok = false;
    let mut rp_err = String::new();
    let mut rp_consumed = 0usize;
    let mut rp_eq = false;
    let mut rp_fields = none_fields();
    if let Some(pkt) = &pkt {
        size = pn.run("size", || pkt.size()).unwrap_or(usize::MAX >> 40);
        cont = pn.run("to_continuous_buffer", || pkt.cont()).unwrap_or_default();
        if let Some(vv) = pn.run("to_buffers", || pkt.vecs()) {
            vec_len = vv.len();
            vec_equal = vv == cont;
        }
        fields = pn.run("accessors", || pkt.fields()).unwrap_or_else(none_fields);
        // parse the bytes it serialised to
        if let Some((rl_len, _)) = split_header(&cont) {
            let body = &cont[(1 + rl_len).min(cont.len())..];
            let flags = cont[0] & 0x0f;
            match pn.run("reparse", || pk::parse(&k, &ver, w, flags, body)) {
                Some(Ok((q, n))) => {
                    rp_ok = true;
                    rp_consumed = n;
                    rp_eq = pn.run("eq", || q.eq_dyn(pkt.as_ref())).unwrap_or(false);
                    rp_fields = pn.run("accessors-reparsed", || q.fields()).unwrap_or_else(none_fields);
                }
                Some(Err(msg)) => rp_err = msg,
                None => rp_err = "panic".into(),
            }
        } else {
            rp_err = "no well-formed Remaining Length in the serialisation".into();
        }
    }
    // other builder call sequences for the same packet
    let mut ow = "na".to_string();
    let mut orphan = "na".to_string();
    if let Some(pkt) = &pkt {
        if let Some(Some(r2)) = pn.run("build-overwrite", || pk::build_variant(p, "overwrite")) {
            ow = match r2 {
                Ok(q) => {
                    let same = pn.run("overwrite-compare", || q.cont() == cont && q.eq_dyn(pkt.as_ref())).unwrap_or(false);
                    if same { "same".into() } else { "differs".into() }
                }
                Err(_) => "differs".into(),
            };
        }
        if let Some(Some(r2)) = pn.run("build-orphan", || pk::build_variant(p, "orphan")) {
            orphan = match r2 {
                Err(_) => "refused".into(),
                Ok(q) => {
                    let ok = pn
                        .run("orphan-roundtrip", || {
                            let c2 = q.cont();
                            match split_header(&c2) {
                                Some((rl, _)) => match pk::parse(&k, &ver, w, c2[0] & 0x0f, &c2[(1 + rl).min(c2.len())..]) {
                                    Ok((q2, _)) => q2.eq_dyn(q.as_ref()) && q.size() == c2.len(),
                                    Err(_) => false,
                                },
                                None => false,
                            }
                        })
                        .unwrap_or(false);
                    if ok { "roundtrips".into() } else { "unequal".into() }
                }
            };
        }
    }
    // the public rewrites of a v5.0 PUBLISH must leave a self-consistent packet (the C02 chain again)
    let mut rw = "na".to_string();
    if pkt.is_some() {
        if let Some(Ok(list)) = pn.run("rewrites", || pk::publish_rewrites(p)) {
            if !list.is_empty() {
                rw = "ok".into();
            }
            for (name, q) in list {
                let good = pn
                    .run("rewrite-check", || {
                        let c2 = q.cont();
                        if q.size() != c2.len() || q.vecs() != c2 {
                            return false;
                        }
                        match split_header(&c2) {
                            Some((rl, val)) if 1 + rl + val == c2.len() => match pk::parse(&k, &ver, w, c2[0] & 0x0f, &c2[1 + rl..]) {
                                Ok((q2, n)) => n == val && q2.eq_dyn(q.as_ref()),
                                Err(_) => false,
                            },
                            _ => false,
                        }
                    })
                    .unwrap_or(false);
                if !good && rw == "ok" {
                    rw = format!("inconsistent:{name}");
                }
            }
        }
    }
    // ... and `add_topic_alias` must produce exactly the reference bytes of the packet that carries the alias last
    let mut rwf = "na".to_string();
    if pkt.is_none() {
        // only packets the builders accept are rewritten (a forbidden alias value is not handed to add_topic_alias)
    } else if let Some(Some(r2)) = pn.run("add-alias", || pk::publish_via_add_alias(p)) {
        rwf = match r2 {
            Ok(q) => {
                if pn.run("add-alias-bytes", || q.cont() == reference).unwrap_or(false) { "ok".into() } else { "differs".into() }
            }
            Err(_) => "na".into(), // the packet without its alias is not buildable (empty topic)
        };
    }
    m.insert("rwf".into(), json!(rwf));
    m.insert("rw".into(), json!(rw));
    m.insert("ow".into(), json!(ow));
    m.insert("orphan".into(), json!(orphan));
    let d = first_diff(&cont, &reference);
    m.insert("size".into(), json!(size));
    m.insert("cont_len".into(), json!(cont.len()));
    m.insert("hdr".into(), json!(cont[..cont.len().min(5)].to_vec()));
    m.insert("vec_equal".into(), json!(vec_equal));
    m.insert("vec_len".into(), json!(vec_len));
    m.insert("fwd_equal".into(), json!(pkt.is_some() && d < 0));
    m.insert("fwd_diff".into(), json!(d));
    if pkt.is_some() && d >= 0 {
        let a = (d as usize).saturating_sub(4);
        m.insert("fwd_got".into(), json!(cont[a.min(cont.len())..cont.len().min(a + 12)].to_vec()));
        m.insert("fwd_want".into(), json!(reference[a.min(reference.len())..reference.len().min(a + 12)].to_vec()));
    }
    m.insert("fields".into(), fields);
    m.insert("rp_ok".into(), json!(rp_ok));
    m.insert("rp_err".into(), json!(rp_err));
    m.insert("rp_consumed".into(), json!(rp_consumed));
    m.insert("rp_eq".into(), json!(rp_eq));
    m.insert("rp_fields".into(), rp_fields);

    // ---- parser path on the REFERENCE bytes
    let mut ref_ok = false;
    let mut ref_err = String::new();
    let mut ref_consumed = 0usize;
    let mut ref_body_len = 0usize;
    let mut ref_fields = none_fields();
    let mut ref_eq_built = false;
    if let Some((rl_len, _)) = split_header(&reference) {
        let body = &reference[1 + rl_len..];
        ref_body_len = body.len();
        let flags = reference[0] & 0x0f;
        match pn.run("parse-reference", || pk::parse(&k, &ver, w, flags, body)) {
            Some(Ok((q, n))) => {
                ref_ok = true;
                ref_consumed = n;
                ref_fields = pn.run("accessors-reference", || q.fields()).unwrap_or_else(none_fields);
                if let Some(pkt) = &pkt {
                    ref_eq_built = pn.run("eq-reference", || q.eq_dyn(pkt.as_ref())).unwrap_or(false);
                }
            }
            Some(Err(msg)) => ref_err = msg,
            None => ref_err = "panic".into(),
        }
    } else {
        ref_err = "reference header unreadable".into();
    }
    m.insert("ref_ok".into(), json!(ref_ok));
    m.insert("ref_err".into(), json!(ref_err));
    m.insert("ref_consumed".into(), json!(ref_consumed));
    m.insert("ref_body_len".into(), json!(ref_body_len));
    m.insert("ref_fields".into(), ref_fields);
    m.insert("ref_eq_built".into(), json!(ref_eq_built));
    m.insert("panic".into(), json!(pn.text()));
    Value::Object(m)
}

// ------------------------------------------------------------------ c04 mode

#[derive(Clone)]
struct Input {
    k: String,
    v: String,
    w: u64,
    flags: u8,
    body: Vec<u8>,
    op: String,
    reject: bool,
}

struct C04Out {
    node: Option<Value>,
    accepted: bool,
    panicked: bool,
    /// hash of everything the judge looks at (two inputs with the same signature are judged alike)
    sig: u64,
}

fn fnv(h: &mut u64, b: &[u8]) {
    for x in b {
        *h = (*h ^ *x as u64).wrapping_mul(1099511628211);
    }
    *h = (*h ^ 0xff).wrapping_mul(1099511628211);
}

fn c04_one(inp: &Input, always_log: bool, sample: u64) -> C04Out {
    let mut pn = Panics(vec![]);
    let res = pn.run("parse", || pk::parse(&inp.k, &inp.v, inp.w, inp.flags, &inp.body));
    let (pkt, consumed, err) = match res {
        Some(Ok((q, n))) => (Some(q), n, String::new()),
        Some(Err(msg)) => (None, 0, msg),
        None => (None, 0, "panic".into()),
    };
    let accepted = pkt.is_some();
    if !accepted && pn.0.is_empty() {
        return C04Out { node: None, accepted: false, panicked: false, sig: 0 };
    }
    let mut size = 0usize;
    let mut reser: Vec<u8> = vec![];
    let mut fields = none_fields();
    let mut rp_ok = false;
    let mut rp_err = String::new();
    let mut rp_eq = false;
    let mut rp_fields = none_fields();
    let mut rebuild_ok = false;
    let mut rebuild_err = String::new();
    if let Some(pkt) = &pkt {
        size = pn.run("size", || pkt.size()).unwrap_or(usize::MAX >> 40);
        reser = pn.run("to_continuous_buffer", || pkt.cont()).unwrap_or_default();
        fields = pn.run("accessors", || pkt.fields()).unwrap_or_else(none_fields);
        let (body, flags): (&[u8], u8) = if pkt.framed() {
            match split_header(&reser) {
                Some((rl_len, _)) => (&reser[(1 + rl_len).min(reser.len())..], reser[0] & 0x0f),
                None => (&[][..], 0xff),
            }
        } else {
            (&reser[..], 0)
        };
        if flags == 0xff {
            rp_err = "no well-formed Remaining Length in the serialisation".into();
        } else {
            match pn.run("reparse", || pk::parse(&inp.k, &inp.v, inp.w, flags, body)) {
                Some(Ok((q, _))) => {
                    rp_ok = true;
                    rp_eq = pn.run("eq", || q.eq_dyn(pkt.as_ref())).unwrap_or(false);
                    rp_fields = pn.run("accessors-reparsed", || q.fields()).unwrap_or_else(none_fields);
                }
                Some(Err(msg)) => rp_err = msg,
                None => rp_err = "panic".into(),
            }
        }
        if pkt.framed() {
            match pn.run("rebuild", || pk::build(&fields)) {
                Some(Ok(_)) => rebuild_ok = true,
                Some(Err(msg)) => rebuild_err = msg,
                None => rebuild_err = "panic".into(),
            }
        } else {
            // sub-parsers: the "builder" of a property is its constructor
            let r = match inp.k.as_str() {
                "x-prop" => pn.run("rebuild", || pk::mk_prop(&fields["q"]).map(|_| ())),
                "x-props" => pn.run("rebuild", || pk::mk_props(&fields["ps"]).map(|_| ())),
                _ => Some(Ok(())),
            };
            match r {
                Some(Ok(())) => rebuild_ok = true,
                Some(Err(msg)) => rebuild_err = msg,
                None => rebuild_err = "panic".into(),
            }
        }
    }
    let panicked = !pn.0.is_empty();
    let anomalous = panicked
        || (accepted && (size != reser.len() || !rp_ok || !rp_eq || rp_fields != fields || consumed > inp.body.len() || !rebuild_ok || inp.reject));
    let mut sig: u64 = 1469598103934665603;
    fnv(&mut sig, &[accepted as u8, (consumed > inp.body.len()) as u8, rp_ok as u8, rp_eq as u8, rebuild_ok as u8, inp.reject as u8]);
    fnv(&mut sig, &size.to_le_bytes());
    fnv(&mut sig, &reser);
    fnv(&mut sig, fields.to_string().as_bytes());
    fnv(&mut sig, rp_fields.to_string().as_bytes());
    fnv(&mut sig, pn.text().as_bytes());
    if !always_log && !anomalous {
        // deterministic sampling of the uninteresting accepted inputs of the large enumerations
        let mut h: u64 = 1469598103934665603;
        for b in &inp.body {
            h = (h ^ *b as u64).wrapping_mul(1099511628211);
        }
        if sample == 0 || h % sample != 0 {
            return C04Out { node: None, accepted, panicked, sig };
        }
    }
    let node = json!({
        "k": inp.k, "v": inp.v, "w": inp.w, "flags": inp.flags, "op": inp.op, "reject": inp.reject,
        "in_len": inp.body.len(), "body": inp.body,
        "accepted": accepted, "err": err, "consumed": consumed,
        "size": size, "reser_len": reser.len(),
        "reser": if reser.len() <= 400 { bytes_to_runs(&reser) } else { json!([]) },
        "fields": fields, "rp_ok": rp_ok, "rp_err": rp_err, "rp_eq": rp_eq, "rp_fields": rp_fields,
        "rebuild_ok": rebuild_ok, "rebuild_err": rebuild_err,
        "panic": pn.text(),
    });
    C04Out { node: Some(node), accepted, panicked, sig }
}

const ALPHABET: [u8; 31] = [
    0x00, 0x01, 0x02, 0x03, 0x7f, 0x80, 0xff, 8, 9, 11, 17, 18, 19, 21, 22, 23, 24, 25, 26, 28, 31, 33, 34, 35, 36, 37, 38, 39,
    40, 41, 42,
];

fn parsers() -> Vec<(String, String, u64, u8)> {
    let mut out = Vec::new();
    let with_pid = ["publish", "puback", "pubrec", "pubrel", "pubcomp", "subscribe", "suback", "unsubscribe", "unsuback"];
    let all = [
        "connect", "connack", "publish", "puback", "pubrec", "pubrel", "pubcomp", "subscribe", "suback", "unsubscribe", "unsuback",
        "pingreq", "pingresp", "disconnect", "auth",
    ];
    for v in ["v311", "v50"] {
        for k in all {
            if k == "auth" && v == "v311" {
                continue;
            }
            let ws: &[u64] = if with_pid.contains(&k) { &[16, 32] } else { &[16] };
            for w in ws {
                if k == "publish" {
                    for f in [0u8, 2, 4, 6, 0x0b, 0x0d] {
                        out.push((k.to_string(), v.to_string(), *w, f));
                    }
                } else {
                    out.push((k.to_string(), v.to_string(), *w, 0));
                }
            }
        }
    }
    for k in ["x-prop", "x-props", "x-subentry", "x-string", "x-binary", "x-vbi"] {
        out.push((k.to_string(), "v50".to_string(), 16, 0));
    }
    out
}

#[derive(Default)]
struct Stats {
    inputs: u64,
    accepted: u64,
    panics: u64,
    logged: u64,
    by_op: BTreeMap<String, (u64, u64)>,
    by_kind: BTreeMap<String, (u64, u64)>,
}
impl Stats {
    fn add(&mut self, inp: &Input, o: &C04Out) {
        self.inputs += 1;
        let base = inp.op.split('+').next().unwrap_or("").to_string();
        let a = self.by_op.entry(base).or_default();
        a.0 += 1;
        let kk = format!("{} {} w{}", inp.k, inp.v, inp.w);
        let b = self.by_kind.entry(kk).or_default();
        b.0 += 1;
        if o.accepted {
            self.accepted += 1;
            a.1 += 1;
            b.1 += 1;
        }
        if o.panicked {
            self.panics += 1;
        }
        if o.node.is_some() {
            self.logged += 1;
        }
    }
    fn merge(&mut self, o: Stats) {
        self.inputs += o.inputs;
        self.accepted += o.accepted;
        self.panics += o.panics;
        self.logged += o.logged;
        for (k, v) in o.by_op {
            let a = self.by_op.entry(k).or_default();
            a.0 += v.0;
            a.1 += v.1;
        }
        for (k, v) in o.by_kind {
            let a = self.by_kind.entry(k).or_default();
            a.0 += v.0;
            a.1 += v.1;
        }
    }
}

fn exhaustive_job(pz: &(String, String, u64, u8), max_len: usize, sample: u64) -> (Vec<String>, Stats) {
    let mut lines = Vec::new();
    let mut st = Stats::default();
    let mut seen: std::collections::HashSet<u64> = std::collections::HashSet::new();
    let n = ALPHABET.len();
    for len in 0..=max_len {
        let total = n.pow(len as u32);
        let mut idx = vec![0usize; len];
        for _ in 0..total {
            let body: Vec<u8> = idx.iter().map(|i| ALPHABET[*i]).collect();
            let inp = Input { k: pz.0.clone(), v: pz.1.clone(), w: pz.2, flags: pz.3, body, op: "exhaustive".into(), reject: false };
            let mut o = c04_one(&inp, len <= 3, sample);
            if o.node.is_some() && !seen.insert(o.sig) {
                o.node = None; // same observable behaviour as an input already recorded
            }
            st.add(&inp, &o);
            if let Some(nd) = o.node {
                lines.push(nd.to_string());
            }
            // next index vector
            for d in (0..len).rev() {
                idx[d] += 1;
                if idx[d] < n {
                    break;
                }
                idx[d] = 0;
            }
        }
    }
    (lines, st)
}

fn random_job(pz: &(String, String, u64, u8), count: u64, seed: u64, seeds: &[Input], sample: u64) -> (Vec<String>, Stats) {
    let mut lines = Vec::new();
    let mut st = Stats::default();
    let mut seen: std::collections::HashSet<u64> = std::collections::HashSet::new();
    let mut h = seed;
    for b in pz.0.bytes().chain(pz.1.bytes()) {
        h = h.wrapping_mul(31).wrapping_add(b as u64);
    }
    let mut rng = Rng::new(h.wrapping_add(pz.2).wrapping_add(pz.3 as u64 * 977));
    let mine: Vec<&Input> = seeds.iter().filter(|s| s.k == pz.0 && s.v == pz.1 && s.w == pz.2).collect();
    for i in 0..count {
        let (body, flags, op) = if i % 2 == 1 && !mine.is_empty() {
            // multi-edit mutant of a specification-generated input
            let s = mine[rng.below(mine.len() as u64) as usize];
            let mut b = s.body.clone();
            for _ in 0..(1 + rng.below(3)) {
                match rng.below(5) {
                    0 if !b.is_empty() => {
                        let i = rng.below(b.len() as u64) as usize;
                        b[i] ^= 1 << rng.below(8);
                    }
                    1 => {
                        let i = rng.below(b.len() as u64 + 1) as usize;
                        b.insert(i, *rng.pick(&[0u8, 0x80, 0xff, 1, 38, 11, 127]));
                    }
                    2 if !b.is_empty() => {
                        let i = rng.below(b.len() as u64) as usize;
                        b.remove(i);
                    }
                    3 if !b.is_empty() => {
                        let i = rng.below(b.len() as u64) as usize;
                        b.truncate(i);
                    }
                    _ => {
                        if !b.is_empty() {
                            let i = rng.below(b.len() as u64) as usize;
                            b[i] = rng.below(256) as u8;
                        }
                    }
                }
            }
            (b, s.flags, "multi-edit")
        } else {
            let len = rng.below(41) as usize;
            let b: Vec<u8> = (0..len).map(|_| if rng.chance(1, 2) { *rng.pick(&ALPHABET) } else { rng.below(256) as u8 }).collect();
            let f = if pz.0 == "publish" { rng.below(16) as u8 } else { pz.3 };
            (b, f, "random")
        };
        let inp = Input { k: pz.0.clone(), v: pz.1.clone(), w: pz.2, flags, body, op: op.into(), reject: false };
        let mut o = c04_one(&inp, false, sample);
        if o.node.is_some() && !seen.insert(o.sig) {
            o.node = None;
        }
        st.add(&inp, &o);
        if let Some(nd) = o.node {
            lines.push(nd.to_string());
        }
    }
    (lines, st)
}

// ------------------------------------------------------------------ plumbing

fn parallel<T: Sync, U: Send>(items: &[T], threads: usize, f: impl Fn(&T) -> U + Sync) -> Vec<U> {
    let threads = threads.max(1).min(items.len().max(1));
    let chunk = (items.len() + threads - 1) / threads.max(1);
    if chunk == 0 {
        return vec![];
    }
    let f = &f;
    let mut out: Vec<U> = Vec::with_capacity(items.len());
    std::thread::scope(|s| {
        let hs: Vec<_> = items.chunks(chunk).map(|c| s.spawn(move || c.iter().map(f).collect::<Vec<U>>())).collect();
        for h in hs {
            out.extend(h.join().expect("worker thread"));
        }
    });
    out
}

fn write_flat(path: &str, lines: &[String]) -> std::io::Result<()> {
    let f = std::fs::File::create(path)?;
    let mut w = BufWriter::new(f);
    let kids: Vec<usize> = (1..=lines.len()).collect();
    writeln!(w, "{}", json!({"id": 0, "parent": 0, "kids": kids, "k": "root"}))?;
    for (i, l) in lines.iter().enumerate() {
        // splice id/parent/kids in front of the body
        let body = l.strip_prefix('{').unwrap_or(l);
        writeln!(w, "{{\"id\":{},\"parent\":0,\"kids\":[],{}", i + 1, body)?;
    }
    w.flush()
}

fn main() {
    let args: Vec<String> = std::env::args().collect();
    silence_panics();
    let mode = args.get(1).cloned().unwrap_or_default();
    let out = arg(&args, "--out").unwrap_or_else(|| {
        eprintln!("--out required");
        std::process::exit(2)
    });
    let threads: usize = arg(&args, "--threads").and_then(|s| s.parse().ok()).unwrap_or(8);
    match mode.as_str() {
        "vec" => {
            let vectors = read_ndjson(&arg(&args, "--vectors").expect("--vectors"));
            let lines = parallel(&vectors, threads, |v| vec_one(v).to_string());
            let mut built = 0u64;
            let mut panics = 0u64;
            let mut by_kind: BTreeMap<String, (u64, u64)> = BTreeMap::new();
            let mut cells: BTreeMap<String, u64> = BTreeMap::new();
            for (v, l) in vectors.iter().zip(lines.iter()) {
                let kk = format!("{} {} w{}", v["p"]["k"].as_str().unwrap_or(""), v["p"]["v"].as_str().unwrap_or(""), v["p"]["w"]);
                let e = by_kind.entry(kk).or_default();
                e.0 += 1;
                if l.contains("\"built\":true") {
                    built += 1;
                    e.1 += 1;
                    // which (location, property) cells were carried by a packet the builder accepted
                    let p = &v["p"];
                    if p["v"].as_str() == Some("v50") {
                        let k = p["k"].as_str().unwrap_or("");
                        let lists: Vec<(&str, &Value)> = match k {
                            "puback" | "pubrec" | "pubrel" | "pubcomp" | "disconnect" | "auth" => vec![(k, &p["props"][0])],
                            "connect" => vec![("connect", &p["props"]), ("will", &p["will"][0]["props"])],
                            _ => vec![(k, &p["props"])],
                        };
                        for (loc, ps) in lists {
                            for q in ps.as_array().cloned().unwrap_or_default() {
                                *cells.entry(format!("{}:{}", loc, q["id"])).or_default() += 1;
                            }
                        }
                    }
                }
                if !l.contains("\"panic\":\"\"") {
                    panics += 1;
                }
            }
            write_flat(&out, &lines).expect("write");
            println!("{}", json!({"vectors": vectors.len(), "built": built, "panics": panics, "by_kind": by_kind, "cells": cells}));
        }
        "c04" => {
            let mut stats = Stats::default();
            let mut lines: Vec<String> = Vec::new();
            let mut inputs: Vec<Input> = Vec::new();
            if let Some(vf) = arg(&args, "--vectors") {
                for v in read_ndjson(&vf) {
                    inputs.push(Input {
                        k: v["k"].as_str().unwrap_or("").into(),
                        v: v["v"].as_str().unwrap_or("").into(),
                        w: v["w"].as_u64().unwrap_or(16),
                        flags: v["flags"].as_u64().unwrap_or(0) as u8,
                        body: v["body"].as_array().cloned().unwrap_or_default().iter().map(|b| b.as_u64().unwrap_or(0) as u8).collect(),
                        op: v["op"].as_str().unwrap_or("").into(),
                        reject: v["reject"].as_bool().unwrap_or(false),
                    });
                }
            }
            let sample: u64 = arg(&args, "--sample").and_then(|s| s.parse().ok()).unwrap_or(64);
            let res = parallel(&inputs, threads, |i| {
                let o = c04_one(i, true, 0);
                (o.node.as_ref().map(|n| n.to_string()), o.accepted, o.panicked, o.sig)
            });
            // inputs of one parser with the same observable behaviour are judged once
            let mut seen: std::collections::HashSet<(String, u64)> = std::collections::HashSet::new();
            for (i, (mut n, a, p, sig)) in inputs.iter().zip(res.into_iter()) {
                if n.is_some() && !seen.insert((format!("{}{}{}", i.k, i.v, i.w), sig)) {
                    n = None;
                }
                let o = C04Out { node: n.as_ref().map(|_| Value::Null), accepted: a, panicked: p, sig };
                stats.add(i, &o);
                if let Some(l) = n {
                    lines.push(l);
                }
            }
            let pz = parsers();
            let exhaust: usize = arg(&args, "--exhaust").and_then(|s| s.parse().ok()).unwrap_or(0);
            if exhaust > 0 {
                for (l, st) in parallel(&pz, threads.max(16), |p| exhaustive_job(p, exhaust, sample)) {
                    lines.extend(l);
                    stats.merge(st);
                }
            }
            let random: u64 = arg(&args, "--random").and_then(|s| s.parse().ok()).unwrap_or(0);
            if random > 0 {
                let seed: u64 = arg(&args, "--seed").and_then(|s| s.parse().ok()).unwrap_or(1);
                let per = random / pz.len() as u64 + 1;
                for (l, st) in parallel(&pz, threads.max(16), |p| random_job(p, per, seed, &inputs, sample)) {
                    lines.extend(l);
                    stats.merge(st);
                }
            }
            write_flat(&out, &lines).expect("write");
            println!(
                "{}",
                json!({"inputs": stats.inputs, "accepted": stats.accepted, "panics": stats.panics, "logged": stats.logged,
                       "by_op": stats.by_op, "by_kind": stats.by_kind, "parsers": pz.len()})
            );
        }
        _ => {
            eprintln!("usage: codec-harness vec|c04 ...");
            std::process::exit(2);
        }
    }
}
