//! Binding between the abstract packets of spec/Codec.tla (JSON) and the real packet types:
//! `build` (public builders only), `parse` (each packet's public `parse`), `fields` (public
//! accessors only - never the library's own serde output).
//!
//! Abstract values: string/binary/payload = maximal runs `[[byte,count],..]`; optional = `[]`/`[x]`;
//! 32-bit numbers = `{"hi":..,"lo":..}`; property = `{"id","n","s","t"}`.
use mqtt_protocol_core::mqtt;
use mqtt_protocol_core::mqtt::packet::{
    v3_1_1 as v3, v5_0 as v5, IntoPacketId, IsPacketId, Properties, Property, Qos, RetainHandling,
    SubEntry, SubOpts,
};
use mqtt_protocol_core::mqtt::result_code as rc;
use serde_json::{json, Value};
use std::any::Any;

pub type R<T> = Result<T, String>;

fn e<E: std::fmt::Debug>(x: E) -> String {
    format!("{x:?}")
}

// ------------------------------------------------------------------ abstract values

pub fn runs_to_bytes(v: &Value) -> Vec<u8> {
    let mut out = Vec::new();
    if let Some(a) = v.as_array() {
        for r in a {
            let b = r[0].as_u64().unwrap_or(0) as u8;
            let c = r[1].as_u64().unwrap_or(0) as usize;
            out.resize(out.len() + c, b);
        }
    }
    out
}

pub fn bytes_to_runs(b: &[u8]) -> Value {
    let mut out: Vec<Value> = Vec::new();
    let mut i = 0;
    while i < b.len() {
        let mut j = i;
        while j < b.len() && b[j] == b[i] {
            j += 1;
        }
        out.push(json!([b[i], j - i]));
        i = j;
    }
    Value::Array(out)
}

pub fn num_of(v: &Value) -> u64 {
    v["hi"].as_u64().unwrap_or(0) * 65536 + v["lo"].as_u64().unwrap_or(0)
}

pub fn hl(x: u32) -> Value {
    json!({"hi": x >> 16, "lo": x & 0xffff})
}

fn opt(v: &Value) -> Option<&Value> {
    v.as_array().and_then(|a| a.first())
}

fn text(v: &Value) -> R<String> {
    String::from_utf8(runs_to_bytes(v)).map_err(|_| "inexpressible: not UTF-8".to_string())
}

fn u8_of(v: &Value) -> R<u8> {
    u8::try_from(num_of(v)).map_err(|_| "inexpressible: does not fit u8".to_string())
}
fn u16_of(v: &Value) -> R<u16> {
    u16::try_from(num_of(v)).map_err(|_| "inexpressible: does not fit u16".to_string())
}
fn u32_of(v: &Value) -> R<u32> {
    u32::try_from(num_of(v)).map_err(|_| "inexpressible: does not fit u32".to_string())
}
fn qos_of(n: u64) -> R<Qos> {
    Qos::try_from(n as u8).map_err(|_| "inexpressible: QoS".to_string())
}

/// Packet-identifier width.
pub trait WId: IsPacketId + IntoPacketId<Self> + Copy + 'static {
    const W: u32;
    fn from_hl(v: &Value) -> R<Self>;
    fn to_u32(self) -> u32;
}
impl WId for u16 {
    const W: u32 = 16;
    fn from_hl(v: &Value) -> R<Self> {
        u16_of(v)
    }
    fn to_u32(self) -> u32 {
        self as u32
    }
}
impl WId for u32 {
    const W: u32 = 32;
    fn from_hl(v: &Value) -> R<Self> {
        u32_of(v)
    }
    fn to_u32(self) -> u32 {
        self
    }
}

// ------------------------------------------------------------------ properties

/// OASIS identifiers are the harness's own table, keyed by the variant name, so that a changed
/// numeric constant inside the library cannot cancel out.
pub fn mk_prop(q: &Value) -> R<Property> {
    use mqtt::packet as p;
    let id = q["id"].as_u64().unwrap_or(0);
    let n = &q["n"];
    let s = &q["s"];
    let t = &q["t"];
    let pr: Property = match id {
        1 => {
            let f = p::PayloadFormat::try_from(u8_of(n)?).map_err(|_| "inexpressible: PayloadFormat".to_string())?;
            p::PayloadFormatIndicator::new(f).map_err(e)?.into()
        }
        2 => p::MessageExpiryInterval::new(u32_of(n)?).map_err(e)?.into(),
        3 => p::ContentType::new(text(s)?.as_str()).map_err(e)?.into(),
        8 => p::ResponseTopic::new(text(s)?.as_str()).map_err(e)?.into(),
        9 => p::CorrelationData::new(runs_to_bytes(s)).map_err(e)?.into(),
        11 => p::SubscriptionIdentifier::new(u32_of(n)?).map_err(e)?.into(),
        17 => p::SessionExpiryInterval::new(u32_of(n)?).map_err(e)?.into(),
        18 => p::AssignedClientIdentifier::new(text(s)?.as_str()).map_err(e)?.into(),
        19 => p::ServerKeepAlive::new(u16_of(n)?).map_err(e)?.into(),
        21 => p::AuthenticationMethod::new(text(s)?.as_str()).map_err(e)?.into(),
        22 => p::AuthenticationData::new(runs_to_bytes(s)).map_err(e)?.into(),
        23 => p::RequestProblemInformation::new(u8_of(n)?).map_err(e)?.into(),
        24 => p::WillDelayInterval::new(u32_of(n)?).map_err(e)?.into(),
        25 => p::RequestResponseInformation::new(u8_of(n)?).map_err(e)?.into(),
        26 => p::ResponseInformation::new(text(s)?.as_str()).map_err(e)?.into(),
        28 => p::ServerReference::new(text(s)?.as_str()).map_err(e)?.into(),
        31 => p::ReasonString::new(text(s)?.as_str()).map_err(e)?.into(),
        33 => p::ReceiveMaximum::new(u16_of(n)?).map_err(e)?.into(),
        34 => p::TopicAliasMaximum::new(u16_of(n)?).map_err(e)?.into(),
        35 => p::TopicAlias::new(u16_of(n)?).map_err(e)?.into(),
        36 => p::MaximumQos::new(u8_of(n)?).map_err(e)?.into(),
        37 => p::RetainAvailable::new(u8_of(n)?).map_err(e)?.into(),
        38 => p::UserProperty::new(text(s)?.as_str(), text(t)?.as_str()).map_err(e)?.into(),
        39 => p::MaximumPacketSize::new(u32_of(n)?).map_err(e)?.into(),
        40 => p::WildcardSubscriptionAvailable::new(u8_of(n)?).map_err(e)?.into(),
        41 => p::SubscriptionIdentifierAvailable::new(u8_of(n)?).map_err(e)?.into(),
        42 => p::SharedSubscriptionAvailable::new(u8_of(n)?).map_err(e)?.into(),
        _ => return Err(format!("inexpressible: property id {id}")),
    };
    Ok(pr)
}

pub fn mk_props(v: &Value) -> R<Properties> {
    let mut out = Properties::new();
    if let Some(a) = v.as_array() {
        for q in a {
            out.push(mk_prop(q)?);
        }
    }
    Ok(out)
}

fn pnum(id: u32, n: u32) -> Value {
    json!({"id": id, "n": hl(n), "s": [], "t": []})
}
fn pstr(id: u32, s: &[u8]) -> Value {
    json!({"id": id, "n": hl(0), "s": bytes_to_runs(s), "t": []})
}

pub fn prop_fields(p: &Property) -> Value {
    match p {
        Property::PayloadFormatIndicator(x) => pnum(1, x.val() as u32),
        Property::MessageExpiryInterval(x) => pnum(2, x.val()),
        Property::ContentType(x) => pstr(3, x.val().as_bytes()),
        Property::ResponseTopic(x) => pstr(8, x.val().as_bytes()),
        Property::CorrelationData(x) => pstr(9, x.val()),
        Property::SubscriptionIdentifier(x) => pnum(11, x.val()),
        Property::SessionExpiryInterval(x) => pnum(17, x.val()),
        Property::AssignedClientIdentifier(x) => pstr(18, x.val().as_bytes()),
        Property::ServerKeepAlive(x) => pnum(19, x.val() as u32),
        Property::AuthenticationMethod(x) => pstr(21, x.val().as_bytes()),
        Property::AuthenticationData(x) => pstr(22, x.val()),
        Property::RequestProblemInformation(x) => pnum(23, x.val() as u32),
        Property::WillDelayInterval(x) => pnum(24, x.val()),
        Property::RequestResponseInformation(x) => pnum(25, x.val() as u32),
        Property::ResponseInformation(x) => pstr(26, x.val().as_bytes()),
        Property::ServerReference(x) => pstr(28, x.val().as_bytes()),
        Property::ReasonString(x) => pstr(31, x.val().as_bytes()),
        Property::ReceiveMaximum(x) => pnum(33, x.val() as u32),
        Property::TopicAliasMaximum(x) => pnum(34, x.val() as u32),
        Property::TopicAlias(x) => pnum(35, x.val() as u32),
        Property::MaximumQos(x) => pnum(36, x.val() as u32),
        Property::RetainAvailable(x) => pnum(37, x.val() as u32),
        Property::UserProperty(x) => {
            json!({"id": 38, "n": hl(0), "s": bytes_to_runs(x.key().as_bytes()), "t": bytes_to_runs(x.val().as_bytes())})
        }
        Property::MaximumPacketSize(x) => pnum(39, x.val()),
        Property::WildcardSubscriptionAvailable(x) => pnum(40, x.val() as u32),
        Property::SubscriptionIdentifierAvailable(x) => pnum(41, x.val() as u32),
        Property::SharedSubscriptionAvailable(x) => pnum(42, x.val() as u32),
    }
}

pub fn props_fields(ps: &[Property]) -> Value {
    Value::Array(ps.iter().map(prop_fields).collect())
}
fn opt_props_fields(ps: &Option<Properties>) -> Value {
    match ps {
        None => json!([]),
        Some(v) => json!([props_fields(v)]),
    }
}

// ------------------------------------------------------------------ the packet trait

pub trait Pk {
    fn size(&self) -> usize;
    fn cont(&self) -> Vec<u8>;
    fn vecs(&self) -> Vec<u8>;
    fn fields(&self) -> Value;
    fn as_any(&self) -> &dyn Any;
    fn eq_dyn(&self, o: &dyn Pk) -> bool;
    /// false for the sub-parsers (property, string, ...) which have no fixed header
    fn framed(&self) -> bool {
        true
    }
}

fn hdr(k: &str, v: &str, w: u32) -> serde_json::Map<String, Value> {
    let mut m = serde_json::Map::new();
    m.insert("k".into(), json!(k));
    m.insert("v".into(), json!(v));
    m.insert("w".into(), json!(w));
    m
}

macro_rules! pk_common {
    () => {
        fn size(&self) -> usize {
            self.size()
        }
        fn cont(&self) -> Vec<u8> {
            self.to_continuous_buffer()
        }
        fn vecs(&self) -> Vec<u8> {
            let mut out = Vec::new();
            for s in self.to_buffers() {
                out.extend_from_slice(&s);
            }
            out
        }
        fn as_any(&self) -> &dyn Any {
            self
        }
        fn eq_dyn(&self, o: &dyn Pk) -> bool {
            o.as_any().downcast_ref::<Self>().map_or(false, |x| x == self)
        }
    };
}

fn obj(m: serde_json::Map<String, Value>) -> Value {
    Value::Object(m)
}

// ---- CONNECT
macro_rules! connect_fields {
    ($s:expr, $ver:expr, $props:expr, $wprops:expr) => {{
        let mut m = hdr("connect", $ver, 16);
        m.insert("clean".into(), json!($s.clean_start()));
        m.insert("ka".into(), json!($s.keep_alive()));
        m.insert("cid".into(), bytes_to_runs($s.client_id().as_bytes()));
        let will = match ($s.will_topic(), $s.will_payload()) {
            (Some(t), Some(pl)) => json!([{ "qos": $s.will_qos() as u8, "retain": $s.will_retain(),
                "topic": bytes_to_runs(t.as_bytes()), "payload": bytes_to_runs(pl), "props": $wprops }]),
            _ => json!([]),
        };
        m.insert("will".into(), will);
        m.insert("user".into(), match $s.user_name() { Some(u) => json!([bytes_to_runs(u.as_bytes())]), None => json!([]) });
        m.insert("pass".into(), match $s.password() { Some(u) => json!([bytes_to_runs(u)]), None => json!([]) });
        m.insert("props".into(), $props);
        obj(m)
    }};
}
impl Pk for v3::Connect {
    pk_common!();
    fn fields(&self) -> Value {
        connect_fields!(self, "v311", json!([]), json!([]))
    }
}
impl Pk for v5::Connect {
    pk_common!();
    fn fields(&self) -> Value {
        connect_fields!(self, "v50", props_fields(self.props()), props_fields(self.will_props()))
    }
}

// ---- CONNACK
impl Pk for v3::Connack {
    pk_common!();
    fn fields(&self) -> Value {
        let mut m = hdr("connack", "v311", 16);
        m.insert("sp".into(), json!(self.session_present()));
        m.insert("rc".into(), json!(self.return_code() as u8));
        m.insert("props".into(), json!([]));
        obj(m)
    }
}
impl Pk for v5::Connack {
    pk_common!();
    fn fields(&self) -> Value {
        let mut m = hdr("connack", "v50", 16);
        m.insert("sp".into(), json!(self.session_present()));
        m.insert("rc".into(), json!(self.reason_code() as u8));
        m.insert("props".into(), props_fields(self.props()));
        obj(m)
    }
}

// ---- PUBLISH
macro_rules! publish_fields {
    ($s:expr, $ver:expr, $props:expr) => {{
        let mut m = hdr("publish", $ver, W::W);
        m.insert("qos".into(), json!($s.qos() as u8));
        m.insert("dup".into(), json!($s.dup()));
        m.insert("retain".into(), json!($s.retain()));
        m.insert("pid".into(), match $s.packet_id() { Some(i) => json!([hl(i.to_u32())]), None => json!([]) });
        m.insert("topic".into(), bytes_to_runs($s.topic_name().as_bytes()));
        m.insert("payload".into(), bytes_to_runs($s.payload().as_slice()));
        m.insert("props".into(), $props);
        obj(m)
    }};
}
impl<W: WId> Pk for v3::GenericPublish<W> {
    pk_common!();
    fn fields(&self) -> Value {
        publish_fields!(self, "v311", json!([]))
    }
}
impl<W: WId> Pk for v5::GenericPublish<W> {
    pk_common!();
    fn fields(&self) -> Value {
        publish_fields!(self, "v50", props_fields(self.props()))
    }
}

// ---- PUBACK / PUBREC / PUBREL / PUBCOMP
macro_rules! ack_impl {
    ($name:expr, $t3:ident, $t5:ident) => {
        impl<W: WId> Pk for v3::$t3<W> {
            pk_common!();
            fn fields(&self) -> Value {
                let mut m = hdr($name, "v311", W::W);
                m.insert("pid".into(), hl(self.packet_id().to_u32()));
                m.insert("rc".into(), match self.reason_code() { Some(c) => json!([c as u8]), None => json!([]) });
                m.insert("props".into(), json!([]));
                obj(m)
            }
        }
        impl<W: WId> Pk for v5::$t5<W> {
            pk_common!();
            fn fields(&self) -> Value {
                let mut m = hdr($name, "v50", W::W);
                m.insert("pid".into(), hl(self.packet_id().to_u32()));
                m.insert("rc".into(), match self.reason_code() { Some(c) => json!([c as u8]), None => json!([]) });
                m.insert("props".into(), opt_props_fields(self.props()));
                obj(m)
            }
        }
    };
}
ack_impl!("puback", GenericPuback, GenericPuback);
ack_impl!("pubrec", GenericPubrec, GenericPubrec);
ack_impl!("pubrel", GenericPubrel, GenericPubrel);
ack_impl!("pubcomp", GenericPubcomp, GenericPubcomp);

// ---- SUBSCRIBE
fn entries_fields(es: &[SubEntry]) -> Value {
    Value::Array(
        es.iter()
            .map(|x| {
                let o = x.sub_opts();
                json!({"filter": bytes_to_runs(x.topic_filter().as_bytes()), "qos": o.qos() as u8,
                       "nl": o.nl(), "rap": o.rap(), "rh": o.rh() as u8})
            })
            .collect(),
    )
}
impl<W: WId> Pk for v3::GenericSubscribe<W> {
    pk_common!();
    fn fields(&self) -> Value {
        let mut m = hdr("subscribe", "v311", W::W);
        m.insert("pid".into(), hl(self.packet_id().to_u32()));
        m.insert("props".into(), json!([]));
        m.insert("entries".into(), entries_fields(self.entries()));
        obj(m)
    }
}
impl<W: WId> Pk for v5::GenericSubscribe<W> {
    pk_common!();
    fn fields(&self) -> Value {
        let mut m = hdr("subscribe", "v50", W::W);
        m.insert("pid".into(), hl(self.packet_id().to_u32()));
        m.insert("props".into(), props_fields(self.props()));
        m.insert("entries".into(), entries_fields(self.entries()));
        obj(m)
    }
}

// ---- SUBACK
impl<W: WId> Pk for v3::GenericSuback<W> {
    pk_common!();
    fn fields(&self) -> Value {
        let mut m = hdr("suback", "v311", W::W);
        m.insert("pid".into(), hl(self.packet_id().to_u32()));
        m.insert("props".into(), json!([]));
        m.insert("codes".into(), Value::Array(self.return_codes().iter().map(|c| json!(*c as u8)).collect()));
        obj(m)
    }
}
impl<W: WId> Pk for v5::GenericSuback<W> {
    pk_common!();
    fn fields(&self) -> Value {
        let mut m = hdr("suback", "v50", W::W);
        m.insert("pid".into(), hl(self.packet_id().to_u32()));
        m.insert("props".into(), props_fields(self.props()));
        m.insert("codes".into(), Value::Array(self.reason_codes().iter().map(|c| json!(*c as u8)).collect()));
        obj(m)
    }
}

// ---- UNSUBSCRIBE
impl<W: WId> Pk for v3::GenericUnsubscribe<W> {
    pk_common!();
    fn fields(&self) -> Value {
        let mut m = hdr("unsubscribe", "v311", W::W);
        m.insert("pid".into(), hl(self.packet_id().to_u32()));
        m.insert("props".into(), json!([]));
        m.insert("filters".into(), Value::Array(self.entries().iter().map(|s| bytes_to_runs(s.as_str().as_bytes())).collect()));
        obj(m)
    }
}
impl<W: WId> Pk for v5::GenericUnsubscribe<W> {
    pk_common!();
    fn fields(&self) -> Value {
        let mut m = hdr("unsubscribe", "v50", W::W);
        m.insert("pid".into(), hl(self.packet_id().to_u32()));
        m.insert("props".into(), props_fields(self.props()));
        m.insert("filters".into(), Value::Array(self.entries().iter().map(|s| bytes_to_runs(s.as_str().as_bytes())).collect()));
        obj(m)
    }
}

// ---- UNSUBACK
impl<W: WId> Pk for v3::GenericUnsuback<W> {
    pk_common!();
    fn fields(&self) -> Value {
        let mut m = hdr("unsuback", "v311", W::W);
        m.insert("pid".into(), hl(self.packet_id().to_u32()));
        m.insert("props".into(), json!([]));
        m.insert("codes".into(), json!([]));
        obj(m)
    }
}
impl<W: WId> Pk for v5::GenericUnsuback<W> {
    pk_common!();
    fn fields(&self) -> Value {
        let mut m = hdr("unsuback", "v50", W::W);
        m.insert("pid".into(), hl(self.packet_id().to_u32()));
        m.insert("props".into(), props_fields(self.props()));
        m.insert("codes".into(), Value::Array(self.reason_codes().iter().map(|c| json!(*c as u8)).collect()));
        obj(m)
    }
}

// ---- PINGREQ / PINGRESP / DISCONNECT / AUTH
macro_rules! empty_impl {
    ($ty:ty, $name:expr, $ver:expr) => {
        impl Pk for $ty {
            pk_common!();
            fn fields(&self) -> Value {
                obj(hdr($name, $ver, 16))
            }
        }
    };
}
empty_impl!(v3::Pingreq, "pingreq", "v311");
empty_impl!(v3::Pingresp, "pingresp", "v311");
empty_impl!(v5::Pingreq, "pingreq", "v50");
empty_impl!(v5::Pingresp, "pingresp", "v50");
impl Pk for v3::Disconnect {
    pk_common!();
    fn fields(&self) -> Value {
        let mut m = hdr("disconnect", "v311", 16);
        m.insert("rc".into(), json!([]));
        m.insert("props".into(), json!([]));
        obj(m)
    }
}
impl Pk for v5::Disconnect {
    pk_common!();
    fn fields(&self) -> Value {
        let mut m = hdr("disconnect", "v50", 16);
        m.insert("rc".into(), match self.reason_code() { Some(c) => json!([c as u8]), None => json!([]) });
        m.insert("props".into(), opt_props_fields(self.props()));
        obj(m)
    }
}
impl Pk for v5::Auth {
    pk_common!();
    fn fields(&self) -> Value {
        let mut m = hdr("auth", "v50", 16);
        m.insert("rc".into(), match self.reason_code() { Some(c) => json!([c as u8]), None => json!([]) });
        m.insert("props".into(), opt_props_fields(self.props()));
        obj(m)
    }
}

// ------------------------------------------------------------------ build from the abstract packet

fn bx<T: Pk + 'static>(x: T) -> Box<dyn Pk> {
    Box::new(x)
}

fn entries_of(p: &Value) -> R<Vec<SubEntry>> {
    let mut out = Vec::new();
    for en in p["entries"].as_array().cloned().unwrap_or_default() {
        let rh = RetainHandling::try_from(en["rh"].as_u64().unwrap_or(0) as u8).map_err(|_| "inexpressible: retain handling".to_string())?;
        let o = SubOpts::new()
            .set_qos(qos_of(en["qos"].as_u64().unwrap_or(0))?)
            .set_nl(en["nl"].as_bool().unwrap_or(false))
            .set_rap(en["rap"].as_bool().unwrap_or(false))
            .set_rh(rh);
        out.push(SubEntry::new(text(&en["filter"])?.as_str(), o).map_err(e)?);
    }
    Ok(out)
}
fn filters_of(p: &Value) -> R<Vec<String>> {
    let mut out = Vec::new();
    for f in p["filters"].as_array().cloned().unwrap_or_default() {
        out.push(text(&f)?);
    }
    Ok(out)
}
fn codes_of<T: TryFrom<u8>>(p: &Value) -> R<Vec<T>> {
    let mut out = Vec::new();
    for c in p["codes"].as_array().cloned().unwrap_or_default() {
        out.push(T::try_from(c.as_u64().unwrap_or(999).min(255) as u8).map_err(|_| "inexpressible: reason code".to_string())?);
    }
    Ok(out)
}
fn code_of<T: TryFrom<u8>>(c: &Value) -> R<T> {
    let n = c.as_u64().unwrap_or(999);
    if n > 255 {
        return Err("inexpressible: reason code".into());
    }
    T::try_from(n as u8).map_err(|_| "inexpressible: reason code".to_string())
}

macro_rules! connect_build {
    ($b:expr, $p:expr) => {
        connect_build!($b, $p, false)
    };
    ($b:expr, $p:expr, $decoy:expr) => {{
        let p = $p;
        let mut b = $b;
        if $decoy {
            // every setter is first called with a different value: the last call must win
            b = b.clean_start(!p["clean"].as_bool().unwrap_or(true)).keep_alive(4660).client_id("decoy-client").map_err(e)?;
            if let Some(w) = opt(&p["will"]) {
                let q = (w["qos"].as_u64().unwrap_or(0) + 1) % 3;
                b = b.will_message("decoy/topic", vec![1u8, 2, 3], qos_of(q)?, !w["retain"].as_bool().unwrap_or(false)).map_err(e)?;
            }
            if opt(&p["user"]).is_some() {
                b = b.user_name("decoy-user").map_err(e)?;
            }
            if opt(&p["pass"]).is_some() {
                b = b.password(vec![9u8; 5]).map_err(e)?;
            }
        }
        let mut b = b.clean_start(p["clean"].as_bool().unwrap_or(true));
        let ka = p["ka"].as_u64().unwrap_or(0);
        if ka > 65535 {
            return Err("inexpressible: keep alive".into());
        }
        b = b.keep_alive(ka as u16).client_id(text(&p["cid"])?.as_str()).map_err(e)?;
        if let Some(w) = opt(&p["will"]) {
            b = b
                .will_message(text(&w["topic"])?.as_str(), runs_to_bytes(&w["payload"]), qos_of(w["qos"].as_u64().unwrap_or(0))?, w["retain"].as_bool().unwrap_or(false))
                .map_err(e)?;
        }
        if let Some(u) = opt(&p["user"]) {
            b = b.user_name(text(u)?.as_str()).map_err(e)?;
        }
        if let Some(u) = opt(&p["pass"]) {
            b = b.password(runs_to_bytes(u)).map_err(e)?;
        }
        b
    }};
}

fn build_w<W: WId>(p: &Value) -> R<Box<dyn Pk>> {
    let k = p["k"].as_str().unwrap_or("");
    let v5p = p["v"].as_str() == Some("v50");
    let pid = || W::from_hl(&p["pid"]);
    match (k, v5p) {
        ("publish", _) => {
            let q = qos_of(p["qos"].as_u64().unwrap_or(0))?;
            let dup = p["dup"].as_bool().unwrap_or(false);
            let ret = p["retain"].as_bool().unwrap_or(false);
            let topic = text(&p["topic"])?;
            let payload = runs_to_bytes(&p["payload"]);
            let id = match opt(&p["pid"]) {
                Some(x) => Some(W::from_hl(x)?),
                None => None,
            };
            if v5p {
                let mut b = v5::GenericPublish::<W>::builder().topic_name(topic.as_str()).map_err(e)?.qos(q).dup(dup).retain(ret).payload(payload);
                if let Some(i) = id {
                    b = b.packet_id(i);
                }
                if !p["props"].as_array().map_or(true, |a| a.is_empty()) {
                    b = b.props(mk_props(&p["props"])?);
                }
                Ok(bx(b.build().map_err(e)?))
            } else {
                let mut b = v3::GenericPublish::<W>::builder().topic_name(topic.as_str()).map_err(e)?.qos(q).dup(dup).retain(ret).payload(payload);
                if let Some(i) = id {
                    b = b.packet_id(i);
                }
                Ok(bx(b.build().map_err(e)?))
            }
        }
        ("puback", _) | ("pubrec", _) | ("pubrel", _) | ("pubcomp", _) => {
            macro_rules! ack {
                ($t3:ident, $t5:ident, $rc:ty) => {{
                    if v5p {
                        let mut b = v5::$t5::<W>::builder().packet_id(pid()?);
                        if let Some(c) = opt(&p["rc"]) {
                            b = b.reason_code(code_of::<$rc>(c)?);
                        }
                        if let Some(ps) = opt(&p["props"]) {
                            b = b.props(mk_props(ps)?);
                        }
                        Ok(bx(b.build().map_err(e)?))
                    } else {
                        let mut b = v3::$t3::<W>::builder().packet_id(pid()?);
                        if let Some(c) = opt(&p["rc"]) {
                            b = b.reason_code(code_of::<$rc>(c)?);
                        }
                        if opt(&p["props"]).is_some() {
                            return Err("inexpressible: v3.1.1 properties".into());
                        }
                        Ok(bx(b.build().map_err(e)?))
                    }
                }};
            }
            match k {
                "puback" => ack!(GenericPuback, GenericPuback, rc::PubackReasonCode),
                "pubrec" => ack!(GenericPubrec, GenericPubrec, rc::PubrecReasonCode),
                "pubrel" => ack!(GenericPubrel, GenericPubrel, rc::PubrelReasonCode),
                _ => ack!(GenericPubcomp, GenericPubcomp, rc::PubcompReasonCode),
            }
        }
        ("subscribe", true) => {
            let mut b = v5::GenericSubscribe::<W>::builder().packet_id(pid()?).entries(entries_of(p)?);
            if !p["props"].as_array().map_or(true, |a| a.is_empty()) {
                b = b.props(mk_props(&p["props"])?);
            }
            Ok(bx(b.build().map_err(e)?))
        }
        ("subscribe", false) => Ok(bx(v3::GenericSubscribe::<W>::builder().packet_id(pid()?).entries(entries_of(p)?).build().map_err(e)?)),
        ("suback", true) => {
            let mut b = v5::GenericSuback::<W>::builder().packet_id(pid()?).reason_codes(codes_of::<rc::SubackReasonCode>(p)?);
            if !p["props"].as_array().map_or(true, |a| a.is_empty()) {
                b = b.props(mk_props(&p["props"])?);
            }
            Ok(bx(b.build().map_err(e)?))
        }
        ("suback", false) => Ok(bx(v3::GenericSuback::<W>::builder().packet_id(pid()?).return_codes(codes_of::<rc::SubackReturnCode>(p)?).build().map_err(e)?)),
        ("unsubscribe", true) => {
            let mut b = v5::GenericUnsubscribe::<W>::builder().packet_id(pid()?).entries(filters_of(p)?).map_err(e)?;
            if !p["props"].as_array().map_or(true, |a| a.is_empty()) {
                b = b.props(mk_props(&p["props"])?);
            }
            Ok(bx(b.build().map_err(e)?))
        }
        ("unsubscribe", false) => Ok(bx(v3::GenericUnsubscribe::<W>::builder().packet_id(pid()?).entries(filters_of(p)?).map_err(e)?.build().map_err(e)?)),
        ("unsuback", true) => {
            let mut b = v5::GenericUnsuback::<W>::builder().packet_id(pid()?).reason_codes(codes_of::<rc::UnsubackReasonCode>(p)?);
            if !p["props"].as_array().map_or(true, |a| a.is_empty()) {
                b = b.props(mk_props(&p["props"])?);
            }
            Ok(bx(b.build().map_err(e)?))
        }
        ("unsuback", false) => {
            if !p["codes"].as_array().map_or(true, |a| a.is_empty()) {
                return Err("inexpressible: v3.1.1 UNSUBACK has no codes".into());
            }
            Ok(bx(v3::GenericUnsuback::<W>::builder().packet_id(pid()?).build().map_err(e)?))
        }
        _ => Err(format!("unknown kind {k}")),
    }
}

/// Builder call sequences other than the canonical one (C02 quantifies over what the builders ACCEPT):
///   "overwrite": every CONNECT setter is called twice, first with a decoy value - must build the same packet;
///   "orphan":    v5.0 CONNECT without a will but with will properties - must be refused or round-trip.
/// `None` = the variant does not apply to this packet.
pub fn build_variant(p: &Value, variant: &str) -> Option<R<Box<dyn Pk>>> {
    let k = p["k"].as_str().unwrap_or("");
    if k != "connect" {
        return None;
    }
    let v5p = p["v"].as_str() == Some("v50");
    let no_props = |p: &Value| p["props"].as_array().map_or(true, |a| a.is_empty());
    let go = || -> R<Box<dyn Pk>> {
        if !v5p {
            if !no_props(p) {
                return Err("inexpressible: v3.1.1 properties".into());
            }
            let b = connect_build!(v3::Connect::builder(), p, true);
            return Ok(bx(b.build().map_err(e)?));
        }
        let mut b = connect_build!(v5::Connect::builder(), p, variant == "overwrite");
        if !no_props(p) {
            b = b.props(mk_props(&p["props"])?);
        }
        if let Some(w) = opt(&p["will"]) {
            if !no_props(w) {
                b = b.will_props(mk_props(&w["props"])?);
            }
        } else if variant == "orphan" {
            let mut ps = Properties::new();
            ps.push(mqtt::packet::PayloadFormatIndicator::new(mqtt::packet::PayloadFormat::String).map_err(e)?.into());
            b = b.will_props(ps);
        }
        Ok(bx(b.build().map_err(e)?))
    };
    match variant {
        "overwrite" => Some(go()),
        "orphan" if v5p && opt(&p["will"]).is_none() => Some(go()),
        _ => None,
    }
}

/// The public post-construction rewrites of a v5.0 PUBLISH (used by the connection for automatic topic-alias
/// mapping and store regulation): every applicable one, applied to the packet built from `p`.
fn rewrites_w<W: WId>(p: &Value) -> R<Vec<(&'static str, Box<dyn Pk>)>> {
    let q = qos_of(p["qos"].as_u64().unwrap_or(0))?;
    let topic = text(&p["topic"])?;
    let mk = || -> R<v5::GenericPublish<W>> {
        let mut b = v5::GenericPublish::<W>::builder().topic_name(topic.as_str()).map_err(e)?.qos(q)
            .dup(p["dup"].as_bool().unwrap_or(false)).retain(p["retain"].as_bool().unwrap_or(false)).payload(runs_to_bytes(&p["payload"]));
        if let Some(x) = opt(&p["pid"]) {
            b = b.packet_id(W::from_hl(x)?);
        }
        if !p["props"].as_array().map_or(true, |a| a.is_empty()) {
            b = b.props(mk_props(&p["props"])?);
        }
        b.build().map_err(e)
    };
    let has_alias = p["props"].as_array().map_or(false, |a| a.iter().any(|x| x["id"].as_u64() == Some(35)));
    let mut out: Vec<(&'static str, Box<dyn Pk>)> = Vec::new();
    if !has_alias {
        out.push(("add_topic_alias", bx(mk()?.add_topic_alias(7))));
        if !topic.is_empty() {
            out.push(("remove_topic_add_topic_alias", bx(mk()?.remove_topic_add_topic_alias(7))));
        }
    } else {
        out.push(("remove_topic_alias", bx(mk()?.remove_topic_alias())));
        out.push(("remove_topic_alias_add_topic", bx(mk()?.remove_topic_alias_add_topic("tt".to_string()).map_err(e)?)));
        if topic.is_empty() {
            out.push(("add_extracted_topic_name", bx(mk()?.add_extracted_topic_name("tt").map_err(e)?)));
        }
    }
    Ok(out)
}

/// For a v5.0 PUBLISH whose LAST property is a Topic Alias: the same packet obtained by building it without that
/// property and then calling `add_topic_alias` (must serialise to the reference bytes of `p`). `None` = not applicable.
pub fn publish_via_add_alias(p: &Value) -> Option<R<Box<dyn Pk>>> {
    if p["k"].as_str() != Some("publish") || p["v"].as_str() != Some("v50") {
        return None;
    }
    let props = p["props"].as_array()?;
    let last = props.last()?;
    if last["id"].as_u64() != Some(35) || props.iter().filter(|x| x["id"].as_u64() == Some(35)).count() != 1 {
        return None;
    }
    let alias = num_of(&last["n"]) as u16;
    let mut q = p.clone();
    q["props"] = Value::Array(props[..props.len() - 1].to_vec());
    fn go<W: WId>(q: &Value, alias: u16) -> R<Box<dyn Pk>> {
        let qos = qos_of(q["qos"].as_u64().unwrap_or(0))?;
        let mut b = v5::GenericPublish::<W>::builder().topic_name(text(&q["topic"])?.as_str()).map_err(e)?.qos(qos)
            .dup(q["dup"].as_bool().unwrap_or(false)).retain(q["retain"].as_bool().unwrap_or(false)).payload(runs_to_bytes(&q["payload"]));
        if let Some(x) = opt(&q["pid"]) {
            b = b.packet_id(W::from_hl(x)?);
        }
        if !q["props"].as_array().map_or(true, |a| a.is_empty()) {
            b = b.props(mk_props(&q["props"])?);
        }
        Ok(bx(b.build().map_err(e)?.add_topic_alias(alias)))
    }
    Some(if p["w"].as_u64() == Some(32) { go::<u32>(&q, alias) } else { go::<u16>(&q, alias) })
}

pub fn publish_rewrites(p: &Value) -> R<Vec<(&'static str, Box<dyn Pk>)>> {
    if p["k"].as_str() != Some("publish") || p["v"].as_str() != Some("v50") {
        return Ok(vec![]);
    }
    if p["w"].as_u64() == Some(32) { rewrites_w::<u32>(p) } else { rewrites_w::<u16>(p) }
}

/// Build with the public builders. `Err` = the builder path refused (or the value cannot even be
/// expressed in the builder's argument types).
pub fn build(p: &Value) -> R<Box<dyn Pk>> {
    let k = p["k"].as_str().unwrap_or("");
    let v5p = p["v"].as_str() == Some("v50");
    let no_props = |p: &Value| p["props"].as_array().map_or(true, |a| a.is_empty());
    match (k, v5p) {
        ("connect", false) => {
            if !no_props(p) {
                return Err("inexpressible: v3.1.1 properties".into());
            }
            let b = connect_build!(v3::Connect::builder(), p);
            Ok(bx(b.build().map_err(e)?))
        }
        ("connect", true) => {
            let mut b = connect_build!(v5::Connect::builder(), p);
            if !no_props(p) {
                b = b.props(mk_props(&p["props"])?);
            }
            if let Some(w) = opt(&p["will"]) {
                if !no_props(w) {
                    b = b.will_props(mk_props(&w["props"])?);
                }
            }
            Ok(bx(b.build().map_err(e)?))
        }
        ("connack", false) => {
            if !no_props(p) {
                return Err("inexpressible: v3.1.1 properties".into());
            }
            Ok(bx(v3::Connack::builder()
                .session_present(p["sp"].as_bool().unwrap_or(false))
                .return_code(code_of::<rc::ConnectReturnCode>(&p["rc"])?)
                .build()
                .map_err(e)?))
        }
        ("connack", true) => {
            let mut b = v5::Connack::builder().session_present(p["sp"].as_bool().unwrap_or(false)).reason_code(code_of::<rc::ConnectReasonCode>(&p["rc"])?);
            if !no_props(p) {
                b = b.props(mk_props(&p["props"])?);
            }
            Ok(bx(b.build().map_err(e)?))
        }
        ("pingreq", false) => Ok(bx(v3::Pingreq::builder().build().map_err(e)?)),
        ("pingreq", true) => Ok(bx(v5::Pingreq::builder().build().map_err(e)?)),
        ("pingresp", false) => Ok(bx(v3::Pingresp::builder().build().map_err(e)?)),
        ("pingresp", true) => Ok(bx(v5::Pingresp::builder().build().map_err(e)?)),
        ("disconnect", false) => {
            if opt(&p["rc"]).is_some() || opt(&p["props"]).is_some() {
                return Err("inexpressible: v3.1.1 DISCONNECT has no fields".into());
            }
            Ok(bx(v3::Disconnect::builder().build().map_err(e)?))
        }
        ("disconnect", true) => {
            let mut b = v5::Disconnect::builder();
            if let Some(c) = opt(&p["rc"]) {
                b = b.reason_code(code_of::<rc::DisconnectReasonCode>(c)?);
            }
            if let Some(ps) = opt(&p["props"]) {
                b = b.props(mk_props(ps)?);
            }
            Ok(bx(b.build().map_err(e)?))
        }
        ("auth", true) => {
            let mut b = v5::Auth::builder();
            if let Some(c) = opt(&p["rc"]) {
                b = b.reason_code(code_of::<rc::AuthReasonCode>(c)?);
            }
            if let Some(ps) = opt(&p["props"]) {
                b = b.props(mk_props(ps)?);
            } else if opt(&p["rc"]).is_some() {
                // the builder cannot express "reason code without a property list"
                return Err("inexpressible: AUTH reason code without property length".into());
            }
            Ok(bx(b.build().map_err(e)?))
        }
        ("auth", false) => Err("inexpressible: v3.1.1 has no AUTH".into()),
        _ => {
            if p["w"].as_u64() == Some(32) {
                build_w::<u32>(p)
            } else {
                build_w::<u16>(p)
            }
        }
    }
}

// ------------------------------------------------------------------ parse

fn pr<T: Pk + 'static, E: std::fmt::Debug>(r: Result<(T, usize), E>) -> R<(Box<dyn Pk>, usize)> {
    r.map(|(x, n)| (bx(x), n)).map_err(e)
}

fn parse_w<W: WId>(k: &str, v5p: bool, flags: u8, body: &[u8]) -> R<(Box<dyn Pk>, usize)> {
    match (k, v5p) {
        ("publish", false) => pr(v3::GenericPublish::<W>::parse(flags, mqtt::Arc::from(body))),
        ("publish", true) => pr(v5::GenericPublish::<W>::parse(flags, mqtt::Arc::from(body))),
        ("puback", false) => pr(v3::GenericPuback::<W>::parse(body)),
        ("puback", true) => pr(v5::GenericPuback::<W>::parse(body)),
        ("pubrec", false) => pr(v3::GenericPubrec::<W>::parse(body)),
        ("pubrec", true) => pr(v5::GenericPubrec::<W>::parse(body)),
        ("pubrel", false) => pr(v3::GenericPubrel::<W>::parse(body)),
        ("pubrel", true) => pr(v5::GenericPubrel::<W>::parse(body)),
        ("pubcomp", false) => pr(v3::GenericPubcomp::<W>::parse(body)),
        ("pubcomp", true) => pr(v5::GenericPubcomp::<W>::parse(body)),
        ("subscribe", false) => pr(v3::GenericSubscribe::<W>::parse(body)),
        ("subscribe", true) => pr(v5::GenericSubscribe::<W>::parse(body)),
        ("suback", false) => pr(v3::GenericSuback::<W>::parse(body)),
        ("suback", true) => pr(v5::GenericSuback::<W>::parse(body)),
        ("unsubscribe", false) => pr(v3::GenericUnsubscribe::<W>::parse(body)),
        ("unsubscribe", true) => pr(v5::GenericUnsubscribe::<W>::parse(body)),
        ("unsuback", false) => pr(v3::GenericUnsuback::<W>::parse(body)),
        ("unsuback", true) => pr(v5::GenericUnsuback::<W>::parse(body)),
        _ => Err(format!("unknown kind {k}")),
    }
}

/// Each packet's public `parse` on the body (variable header + payload); PUBLISH also gets the
/// flag nibble of the first byte.
pub fn parse(k: &str, v: &str, w: u64, flags: u8, body: &[u8]) -> R<(Box<dyn Pk>, usize)> {
    let v5p = v == "v50";
    match (k, v5p) {
        ("connect", false) => pr(v3::Connect::parse(body)),
        ("connect", true) => pr(v5::Connect::parse(body)),
        ("connack", false) => pr(v3::Connack::parse(body)),
        ("connack", true) => pr(v5::Connack::parse(body)),
        ("pingreq", false) => pr(v3::Pingreq::parse(body)),
        ("pingreq", true) => pr(v5::Pingreq::parse(body)),
        ("pingresp", false) => pr(v3::Pingresp::parse(body)),
        ("pingresp", true) => pr(v5::Pingresp::parse(body)),
        ("disconnect", false) => pr(v3::Disconnect::parse(body)),
        ("disconnect", true) => pr(v5::Disconnect::parse(body)),
        ("auth", true) => pr(v5::Auth::parse(body)),
        ("auth", false) => Err("v3.1.1 has no AUTH".into()),
        ("x-prop", _) | ("x-props", _) | ("x-subentry", _) | ("x-string", _) | ("x-binary", _) | ("x-vbi", _) => crate::sub::parse(k, body),
        _ => {
            if w == 32 {
                parse_w::<u32>(k, v5p, flags, body)
            } else {
                parse_w::<u16>(k, v5p, flags, body)
            }
        }
    }
}
