#!/bin/sh
# Build the verification framework from files on disk only (offline).
set -e
cd "$(dirname "$0")"
export CARGO_NET_OFFLINE=true
[ -f /repo/Cargo.lock ] && cp /repo/Cargo.lock harness/Cargo.lock
(cd harness && cargo build --offline -q --workspace)
# syntax/semantic check of every specification module
python3 lib/slices.py >/dev/null
for f in spec/*.tla; do
  (cd spec && tla-sany "$(basename "$f")" >/dev/null 2>&1) || { echo "SANY failed on $f" >&2; exit 2; }
done
echo "setup ok"
