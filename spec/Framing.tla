------------------------------ MODULE Framing ------------------------------
(***************************************************************************)
(* The byte-level framing state machine of PacketBuilder::feed             *)
(* (src/mqtt/connection/packet_builder.rs: FixedHeader -> RemainingLength  *)
(* -> Payload, reset() on completion and on error) and the atomic          *)
(* "one whole frame at a time" specification it must refine (C09).         *)
(*                                                                         *)
(* Purely functional (no variables), like Allocator.tla, so that it is     *)
(* used                                                                    *)
(*  - by MC_Framing    : model-checked, for every stream of abstract       *)
(*    frames and every partition into receive buffers, against             *)
(*    AtomicFraming;                                                       *)
(*  - by Trace_Framing : as the ghost that runs in lock-step with the      *)
(*    recorded behaviour of the real PacketBuilder / Connection::recv;     *)
(*  - by Endpoint/Pair : as st.frame (C01, C10).                           *)
(*                                                                         *)
(* State  [phase, hdr, mult, remaining, got, body]                         *)
(*   phase     0 fixed header, 1 remaining length, 2 payload               *)
(*   hdr       header bytes buffered so far (first byte + length bytes)    *)
(*   mult      multiplier of the NEXT length byte (1, 128, 128^2, 128^3,   *)
(*             128^4); width read so far = Len(hdr) - 1                    *)
(*   remaining phase 1: value accumulated so far; phase 2: body bytes      *)
(*             still missing (the code's remaining_length)                 *)
(*   got       body bytes buffered (the code's raw_buf_offset)             *)
(*   body      the buffered body bytes themselves (only maintained by      *)
(*             Feed; FeedV leaves it alone)                                *)
(*                                                                         *)
(* Two layers:                                                             *)
(*   FeedV(s, hd, avail)  the machine seen through a "view" of the receive *)
(*        buffer: hd = the first min(5, avail) bytes at the cursor, avail  *)
(*        = bytes between the cursor and the end of the buffer.  One call  *)
(*        never looks at more than 5 individual bytes (a header is at most *)
(*        1 + 4 bytes); body bytes are only counted.  Pure arithmetic, so  *)
(*        bodies of 16 384 or 2 097 152 bytes cost nothing.                *)
(*   Feed(s, chunk)       = FeedV + copying of the body bytes.             *)
(* Both consume AT MOST ONE frame; when the buffer holds more, the caller  *)
(* calls again with the same buffer and the advanced cursor.               *)
(***************************************************************************)
EXTENDS Integers, Sequences

Min2(a, b) == IF a < b THEN a ELSE b

MaxMult == 128 * 128 * 128          \* multiplier of the 4th length byte

InitState == [phase |-> 0, hdr |-> <<>>, mult |-> 1, remaining |-> 0, got |-> 0, body |-> <<>>]

(* results: one per call *)
Incomplete         == [kind |-> "incomplete", fh |-> 0,  lb |-> <<>>, n |-> 0, body |-> <<>>]
Error              == [kind |-> "error",      fh |-> 0,  lb |-> <<>>, n |-> 0, body |-> <<>>]
Complete(fh, lb, n) == [kind |-> "complete",  fh |-> fh, lb |-> lb,   n |-> n, body |-> <<>>]

(* ------------------------------------------------------------------------ *)
(* Header bytes, one at a time.  k = bytes of hd consumed so far.           *)
(* kind: "more" (window exhausted inside the header), "payload" (header     *)
(* finished, body expected), "complete" (zero-length body: complete at the  *)
(* length byte), "error" (4th length byte with continuation bit).           *)
(* ------------------------------------------------------------------------ *)
RECURSIVE HdrRun(_, _, _)
HdrRun(s, hd, k) ==
  IF s.phase = 2 THEN [st |-> s, k |-> k, kind |-> "payload"]
  ELSE IF k = Len(hd) THEN [st |-> s, k |-> k, kind |-> "more"]
  ELSE LET b == hd[k + 1] IN
       IF s.phase = 0
       THEN HdrRun([s EXCEPT !.phase = 1, !.hdr = << b >>], hd, k + 1)
       ELSE IF s.mult = MaxMult /\ b >= 128
            THEN [st |-> s, k |-> k + 1, kind |-> "error"]
            ELSE LET s1 == [s EXCEPT !.hdr = Append(@, b),
                                     !.remaining = @ + (b % 128) * s.mult,
                                     !.mult = @ * 128]
                 IN  IF b >= 128 THEN HdrRun(s1, hd, k + 1)
                     ELSE IF s1.remaining = 0
                          THEN [st |-> s1, k |-> k + 1, kind |-> "complete"]
                          ELSE [st |-> [s1 EXCEPT !.phase = 2, !.got = 0], k |-> k + 1, kind |-> "payload"]

(* One call seen through the view (hd, avail).  Requires Len(hd) = Min2(5, avail). *)
FeedV(s, hd, avail) ==
  IF avail = 0
  THEN [state |-> s, hused |-> 0, bused |-> 0, res |-> Incomplete]          \* empty buffer
  ELSE LET h == HdrRun(s, hd, 0) IN
       CASE h.kind = "more"     -> [state |-> h.st, hused |-> h.k, bused |-> 0, res |-> Incomplete]
         [] h.kind = "error"    -> [state |-> InitState, hused |-> h.k, bused |-> 0, res |-> Error]
         [] h.kind = "complete" -> [state |-> InitState, hused |-> h.k, bused |-> 0,
                                    res |-> Complete(h.st.hdr[1], Tail(h.st.hdr), 0)]
         [] h.kind = "payload"  ->
              LET take == Min2(h.st.remaining, avail - h.k)
                  s2   == [h.st EXCEPT !.remaining = @ - take, !.got = @ + take]
              IN  IF take > 0 /\ s2.remaining = 0
                  THEN [state |-> InitState, hused |-> h.k, bused |-> take,
                        res |-> Complete(s2.hdr[1], Tail(s2.hdr), s2.got)]
                  ELSE [state |-> s2, hused |-> h.k, bused |-> take, res |-> Incomplete]

(* One call on an explicit buffer remainder `chunk` (the bytes from the cursor to the end). *)
(* Returns [state, consumed, result]; result.body is the completed frame's body.            *)
Feed(s, chunk) ==
  LET v  == FeedV(s, SubSeq(chunk, 1, Min2(5, Len(chunk))), Len(chunk))
      nb == s.body \o SubSeq(chunk, v.hused + 1, v.hused + v.bused)
  IN  [state    |-> IF v.res.kind = "incomplete" THEN [v.state EXCEPT !.body = nb] ELSE InitState,
       consumed |-> v.hused + v.bused,
       result   |-> IF v.res.kind = "complete" THEN [v.res EXCEPT !.body = nb] ELSE v.res]

(* ------------------------------------------------------------------------ *)
(* The specification: the stream cut at frame boundaries, defined directly  *)
(* on the byte sequence (no state machine).  Items:                         *)
(*   "frame"   first byte, 1..4 length bytes (last without continuation     *)
(*             bit, possibly non-minimal), body of the encoded length       *)
(*   "error"   first byte + 4 length bytes that all carry the continuation  *)
(*             bit (the illegal 5-byte form); the NEXT byte starts a frame  *)
(*   "partial" a truncated last frame (never completes)                     *)
(* ------------------------------------------------------------------------ *)
RECURSIVE Pow128(_)
Pow128(j) == IF j = 0 THEN 1 ELSE 128 * Pow128(j - 1)

RECURSIVE VarVal(_, _, _)
VarVal(bytes, i, w) ==      \* value of the w length bytes starting at index i
  IF w = 0 THEN 0 ELSE VarVal(bytes, i, w - 1) + (bytes[i + w - 1] % 128) * Pow128(w - 1)

VarIntAt(bytes, i) ==
  LET avail == Len(bytes) - i + 1
      W == { w \in 1..Min2(4, avail) :
               /\ bytes[i + w - 1] < 128
               /\ \A j \in 1..(w - 1) : bytes[i + j - 1] >= 128 }
  IN  IF W # {}
      THEN LET w == CHOOSE x \in W : TRUE IN [kind |-> "ok", w |-> w, val |-> VarVal(bytes, i, w)]
      ELSE IF avail >= 4 THEN [kind |-> "err", w |-> 4, val |-> 0]
      ELSE [kind |-> "partial", w |-> avail, val |-> 0]

Item(kind, fh, lb, body, size) == [kind |-> kind, fh |-> fh, lb |-> lb, body |-> body, size |-> size]

RECURSIVE Atomic(_, _)
Atomic(bytes, i) ==
  LET L == Len(bytes) IN
  IF i > L THEN << >>
  ELSE LET v == VarIntAt(bytes, i + 1) IN
       CASE v.kind = "err" ->
              << Item("error", bytes[i], SubSeq(bytes, i + 1, i + 4), << >>, 5) >> \o Atomic(bytes, i + 5)
         [] v.kind = "partial" ->
              << Item("partial", bytes[i], SubSeq(bytes, i + 1, L), << >>, L - i + 1) >>
         [] v.kind = "ok" ->
              LET bs == i + 1 + v.w
                  be == bs + v.val - 1
              IN  IF be <= L
                  THEN << Item("frame", bytes[i], SubSeq(bytes, i + 1, i + v.w), SubSeq(bytes, bs, be),
                               1 + v.w + v.val) >> \o Atomic(bytes, be + 1)
                  ELSE << Item("partial", bytes[i], SubSeq(bytes, i + 1, i + v.w), SubSeq(bytes, bs, L),
                               L - i + 1) >>

AtomicFraming(bytes) == Atomic(bytes, 1)

(* Encoding of a length with a given width (non-minimal when w is larger than needed). *)
EncLen(n, w) == [ j \in 1..w |-> ((n \div Pow128(j - 1)) % 128) + (IF j < w THEN 128 ELSE 0) ]
Encodable(n, w) == n < Pow128(w)
=============================================================================
