------------------------------ MODULE MC_Pair ------------------------------
(***************************************************************************)
(* Two Endpoint.tla instances - a client connection c and a server         *)
(* connection s - exchanging the packets each requests to send over two    *)
(* FIFO channels, with                                                     *)
(*   - application workloads on both sides (publish QoS 0/1/2 with manual  *)
(*     topic aliases, subscribe / unsubscribe, ping),                      *)
(*   - application duties when automatic responses are off (answer PUBLISH *)
(*     / PUBREC / PUBREL, SUBSCRIBE, PINGREQ, CONNECT),                    *)
(*   - delivery of the head frame whole or cut (first bytes only),         *)
(*   - transport loss at any point (both channels emptied, both sides told *)
(*     the transport closed) followed by persistent-session resumption     *)
(*     with the same negotiated limits.                                    *)
(* Every transition is ONE public call on ONE of the two objects.  Checked: *)
(* Pair!ViolC01 (property C01) and, for each endpoint separately, the      *)
(* connection-level predicates of Props.  One JSON line per transition is  *)
(* printed for replay on two real objects exchanging real bytes.           *)
(***************************************************************************)
EXTENDS Pair, Json

CONSTANTS Ver, AutoPub, AutoPing, KA,
          SRM, CRM,            \* Receive Maximum announced by the server (CONNACK) / client (CONNECT); 99999 = none
          STAM, CTAM,          \* Topic Alias Maximum announced by the server / client; 99999 = none
          SMPS, CMPS,          \* Maximum Packet Size announced by the server / client; 99999 = none
          AutoMap,             \* both applications switch automatic topic-alias mapping on
          MaxOps, MaxLoss, MaxFire,
          Ops,                 \* subset of {"pub0","pub1","pub2","sub","unsub","ping"}
          Sides,               \* which applications publish: subset of {"c","s"}
          AliasModes,          \* subset of {"none","bind","use"} (v5.0 only)
          Chunks,              \* frames may be delivered in two pieces
          EndpointProps,       \* Props property ids also checked on each endpoint
          Record               \* TRUE: keep the schedule / last step / request log (safety + replay runs);
                               \* FALSE: freeze them (liveness runs: TLC cannot use a VIEW there, and they are not needed)

VARIABLES c, s, gc, gs, rc, rs, pg, c2s, s2c, duties, pend, ops, fires, phase, nconn,
          olog,   \* outcome of each application request so far: << connection number, phase, refused?, kind, qos >>.  Part of the
                  \* view ON PURPOSE: a refused request leaves the endpoint unchanged, so without it "refused after the
                  \* resume" and "refused while the transport was down" merge into one state and only one of the two
                  \* histories would be continued (and replayed) - an implementation that wrongly ACCEPTS one of them
                  \* differs exactly in what happens afterwards.
          last,   \* [who, rec] of the last step      (hidden by VIEW)
          hist    \* the schedule                     (hidden by VIEW)

vars == << c, s, gc, gs, rc, rs, pg, c2s, s2c, duties, pend, ops, fires, phase, nconn, olog, last, hist >>
view == << c, s, gc, gs, pg, c2s, s2c, duties, pend, ops, fires, phase, nconn, olog >>

V(x) == IF x = 99999 THEN -1 ELSE x
NoPend == [who |-> "", pkt |-> NoPkt]
Tags == << "m1", "m2", "m3", "m4", "m5", "m6" >>

St(who) == IF who = "c" THEN c ELSE s
Gh(who) == IF who = "c" THEN gc ELSE gs
Rc(who) == IF who = "c" THEN rc ELSE rs
Other(who) == IF who = "c" THEN "s" ELSE "c"

ConnectPkt(clean) ==
  Sized([Pk("connect", Ver) EXCEPT !.clean = clean, !.ka = KA,
           !.sei = IF Ver = "v50" THEN 10 ELSE -1, !.rm = IF Ver = "v50" THEN V(CRM) ELSE -1,
           !.tam = IF Ver = "v50" THEN V(CTAM) ELSE -1, !.mps = IF Ver = "v50" THEN V(CMPS) ELSE -1], 16)
ConnackPkt(sp) ==
  Sized([Pk("connack", Ver) EXCEPT !.sp = sp, !.rm = IF Ver = "v50" THEN V(SRM) ELSE -1,
           !.tam = IF Ver = "v50" THEN V(STAM) ELSE -1, !.mps = IF Ver = "v50" THEN V(SMPS) ELSE -1], 16)

(* duties the application of `who` incurs from the events it was handed *)
DutiesOf(who, out) ==
  UNION { LET e == out[i] IN
          IF e.ev # "recv" THEN {}
          ELSE IF e.pkt.kind = "publish" /\ e.pkt.qos = 1 /\ ~AutoPub THEN { [who |-> who, kind |-> "puback", pid |-> e.pkt.pid] }
          ELSE IF e.pkt.kind = "publish" /\ e.pkt.qos = 2 /\ ~AutoPub THEN { [who |-> who, kind |-> "pubrec", pid |-> e.pkt.pid] }
          ELSE IF e.pkt.kind = "pubrec" /\ e.pkt.rc < 128 /\ ~AutoPub THEN { [who |-> who, kind |-> "pubrel", pid |-> e.pkt.pid] }
          ELSE IF e.pkt.kind = "pubrel" /\ ~AutoPub THEN { [who |-> who, kind |-> "pubcomp", pid |-> e.pkt.pid] }
          ELSE IF e.pkt.kind = "subscribe" THEN { [who |-> who, kind |-> "suback", pid |-> e.pkt.pid] }
          ELSE IF e.pkt.kind = "unsubscribe" THEN { [who |-> who, kind |-> "unsuback", pid |-> e.pkt.pid] }
          ELSE IF e.pkt.kind = "pingreq" /\ ~AutoPing THEN { [who |-> who, kind |-> "pingresp", pid |-> 0] }
          ELSE IF e.pkt.kind = "connect" THEN { [who |-> who, kind |-> "connack", pid |-> 0] }
          ELSE {}
        : i \in DOMAIN out }

Quiet(c2, s2, g1, g2, ch1, ch2, du, pe, ph) ==
  ch1 = <<>> /\ ch2 = <<>> /\ du = {} /\ pe = NoPend /\ ph = "up" /\ g1.conn = "connected" /\ g2.conn = "connected"
  /\ ~c2.partial /\ ~s2.partial

VacOK(c2, s2) ==
  /\ Vacancy(c2) = (IF Ver = "v50" /\ V(SRM) > 0 THEN V(SRM) ELSE -1)
  /\ Vacancy(s2) = (IF Ver = "v50" /\ V(CRM) > 0 THEN V(CRM) ELSE -1)

(* ONE public call on endpoint `who`.  consume: the channel whose head frame the call used up ("" = none);
   clear: a transport loss empties both channels; the remaining arguments are the new control values. *)
Commit(who, call, consume, clear, du2, pend2, ops2, fires2, phase2, nconn2) ==
  LET a == Apply(St(who), call)
      r == MkRec(a, "none", a)
      g2 == GhostStep(Gh(who), Rc(who), r)
      snd == Sends(a.out)
      frames == [i \in DOMAIN snd |-> snd[i].pkt]
      newC2s == (IF clear THEN <<>> ELSE IF consume = "c2s" THEN Tail(c2s) ELSE c2s) \o (IF who = "c" /\ ~clear THEN frames ELSE <<>>)
      newS2c == (IF clear THEN <<>> ELSE IF consume = "s2c" THEN Tail(s2c) ELSE s2c) \o (IF who = "s" /\ ~clear THEN frames ELSE <<>>)
      pg2 == PairStep(pg, who, r, MapGet(Gh(who).rx, call.pkt.alias))
      du3 == du2 \cup DutiesOf(who, a.out)
      c2 == IF who = "c" THEN a.st ELSE c
      s2 == IF who = "s" THEN a.st ELSE s
      gc2 == IF who = "c" THEN g2 ELSE gc
      gs2 == IF who = "s" THEN g2 ELSE gs
  IN  /\ c' = c2 /\ s' = s2 /\ gc' = gc2 /\ gs' = gs2
      /\ rc' = (IF who = "c" THEN r ELSE rc) /\ rs' = (IF who = "s" THEN r ELSE rs)
      /\ pg' = pg2
      /\ c2s' = newC2s /\ s2c' = newS2c
      /\ duties' = du3 /\ pend' = pend2 /\ ops' = ops2 /\ fires' = fires2 /\ phase' = phase2 /\ nconn' = nconn2
      /\ olog' = (IF Record /\ call.op = "send" /\ call.pkt.kind \in {"publish", "subscribe", "unsubscribe"}
                  THEN Append(olog, << nconn, phase, HasErr(a.out), call.pkt.kind, call.pkt.qos >>) ELSE olog)
      /\ last' = IF ~Record THEN last ELSE
                 [who |-> who, rec |-> r,
                  quiet |-> Quiet(c2, s2, gc2, gs2, newC2s, newS2c, du3, pend2, phase2), vacOK |-> VacOK(c2, s2),
                  oc |-> ObsOf(c2), os |-> ObsOf(s2), dc |-> DigOf(c2), ds |-> DigOf(s2)]
      /\ hist' = IF Record THEN Append(hist, [who |-> who, call |-> a.call]) ELSE hist

Keep(who, call) == Commit(who, call, "", FALSE, duties, pend, ops, fires, phase, nconn)

(* ---- the environment's actions ---- *)
ClientConnect ==
  /\ phase = "down" /\ pend = NoPend
  /\ Commit("c", [Call("send") EXCEPT !.pkt = ConnectPkt(nconn = 0 /\ Ver = "v50")], "", FALSE, duties, pend, ops, fires, "up", nconn + 1)

Deliver ==
  \E dir \in {"c2s", "s2c"} :
    LET ch == IF dir = "c2s" THEN c2s ELSE s2c
        to == IF dir = "c2s" THEN "s" ELSE "c"
    IN  /\ phase = "up" /\ ch # <<>> /\ pend = NoPend
        /\ \/ Commit(to, [Call("recv") EXCEPT !.pkt = Head(ch), !.flag = TRUE], dir, FALSE, duties, pend, ops, fires, phase, nconn)
           \/ /\ Chunks /\ ~St(to).partial
              /\ Commit(to, [Call("recv") EXCEPT !.pkt = Head(ch), !.flag = FALSE], "", FALSE, duties, pend, ops, fires, phase, nconn)

Duty ==
  \E d \in duties :
    /\ pend = NoPend /\ phase = "up" /\ Gh(d.who).conn = (IF d.kind = "connack" THEN "connecting" ELSE "connected")
    /\ LET pkt == IF d.kind = "connack" THEN ConnackPkt(nconn > 1)
                  ELSE AckPkt(d.kind, Ver, d.pid, 0, 16)
       IN  Commit(d.who, [Call("send") EXCEPT !.pkt = pkt], "", FALSE, duties \ {d}, pend, ops, fires, phase, nconn)

Tag == Tags[Cardinality(pg.msgs) + 1]

AppOp ==
  \E who \in {"c", "s"}, op \in Ops :
    /\ phase = "up" /\ pend = NoPend /\ ops < MaxOps /\ Gh(who).conn = "connected" /\ Cardinality(pg.msgs) < Len(Tags)
    /\ \/ /\ op = "pub0" /\ who \in Sides
          /\ Commit(who, [Call("send") EXCEPT !.pkt = Sized([Pk("publish", Ver) EXCEPT !.topic = "t1", !.msg = Tag], 16)],
                    "", FALSE, duties, pend, ops + 1, fires, phase, nconn)
       \/ /\ op \in {"pub1", "pub2"} /\ who \in Sides
          /\ \E am \in (IF Ver = "v50" THEN AliasModes ELSE {"none"}), t \in {"t1", "t2"} :
               LET peerTam == Gh(who).peerTAM
                   known == { e.a : e \in { x \in Gh(who).rx : x.t = t } }
               IN  /\ (am = "bind" => peerTam >= 1)
                   /\ (am = "use" => known # {})
                   /\ Commit(who, Call("acquire"), "", FALSE, duties,
                             [who |-> who, pkt |-> [Pk("publish", Ver) EXCEPT !.qos = IF op = "pub1" THEN 1 ELSE 2,
                                                      !.topic = IF am = "use" THEN "" ELSE t,
                                                      !.alias = IF am = "bind" THEN 1 ELSE IF am = "use" THEN MinOf(known) ELSE 0,
                                                      !.msg = Tag]],
                             ops + 1, fires, phase, nconn)
       \/ /\ op \in {"sub", "unsub"} /\ who = "c"
          /\ Commit(who, Call("acquire"), "", FALSE, duties,
                    [who |-> who, pkt |-> Pk(IF op = "sub" THEN "subscribe" ELSE "unsubscribe", Ver)], ops + 1, fires, phase, nconn)
       \/ /\ op = "ping" /\ who = "c"
          /\ Commit(who, [Call("send") EXCEPT !.pkt = Sized(Pk("pingreq", Ver), 16)], "", FALSE, duties, pend, ops + 1, fires, phase, nconn)

PendSend ==
  /\ pend # NoPend
  /\ LET held == Gh(pend.who).held IN
     /\ held # {}
     /\ Commit(pend.who, [Call("send") EXCEPT !.pkt = Sized([pend.pkt EXCEPT !.pid = MinOf(held)], 16)], "", FALSE,
               duties, NoPend, ops, fires, phase, nconn)

Lose ==   \* bytes in flight discarded at an arbitrary point; both sides are told (client first, then server)
  /\ phase = "up" /\ pg.losses < MaxLoss /\ nconn >= 1
  /\ Commit("c", Call("closed"), "", TRUE, { d \in duties : d.kind = "pubrel" }, pend, ops, fires, "closing", nconn)
Lose2 ==
  /\ phase = "closing"
  /\ Commit("s", Call("closed"), "", TRUE, duties, pend, ops, fires, "down", nconn)

FirePing ==
  /\ phase = "up" /\ pend = NoPend /\ fires < MaxFire /\ "pingreq_send" \in gc.armed /\ gc.conn = "connected"
  /\ Commit("c", [Call("fire") EXCEPT !.k = "pingreq_send"], "", FALSE, duties, pend, ops, fires + 1, phase, nconn)

Next == ClientConnect \/ Deliver \/ Duty \/ AppOp \/ PendSend \/ Lose \/ Lose2 \/ FirePing

(* ---- initial state: two fresh objects with their options ---- *)
SetupC == << [Call("new") EXCEPT !.role = "client", !.ver = Ver, !.idw = 16] >>
          \o (IF AutoPub THEN << [Call("opt") EXCEPT !.name = "auto_pub", !.flag = TRUE] >> ELSE <<>>)
          \o (IF AutoMap THEN << [Call("opt") EXCEPT !.name = "auto_map", !.flag = TRUE] >> ELSE <<>>)
SetupS == << [Call("new") EXCEPT !.role = "server", !.ver = Ver, !.idw = 16] >>
          \o (IF AutoPub THEN << [Call("opt") EXCEPT !.name = "auto_pub", !.flag = TRUE] >> ELSE <<>>)
          \o (IF AutoMap THEN << [Call("opt") EXCEPT !.name = "auto_map", !.flag = TRUE] >> ELSE <<>>)
          \o (IF AutoPing THEN << [Call("opt") EXCEPT !.name = "auto_ping", !.flag = TRUE] >> ELSE <<>>)

RECURSIVE RunFrom(_, _, _, _, _)
RunFrom(st, gh, r, calls, i) ==
  IF i > Len(calls) THEN [st |-> st, g |-> gh, rec |-> r]
  ELSE LET a == Apply(st, calls[i])
           r2 == MkRec(a, "none", a)
       IN  RunFrom(a.st, GhostStep(gh, r, r2), r2, calls, i + 1)

Rec0 == MkRec([st |-> New("client", "v311", 16), out |-> <<>>, call |-> NoCall], "none",
              [st |-> New("client", "v311", 16), out |-> <<>>, call |-> NoCall])

Init ==
  LET xc == RunFrom(New("client", Ver, 16), G0, Rec0, SetupC, 1)
      xs == RunFrom(New("server", Ver, 16), G0, Rec0, SetupS, 1)
  IN  /\ c = xc.st /\ gc = xc.g /\ rc = xc.rec
      /\ s = xs.st /\ gs = xs.g /\ rs = xs.rec
      /\ pg = PG0 /\ c2s = <<>> /\ s2c = <<>> /\ duties = {} /\ pend = NoPend /\ ops = 0 /\ fires = 0 /\ olog = <<>>
      /\ phase = "down" /\ nconn = 0
      /\ last = [who |-> "c", rec |-> xc.rec, quiet |-> FALSE, vacOK |-> TRUE,
                 oc |-> ObsOf(xc.st), os |-> ObsOf(xs.st), dc |-> DigOf(xc.st), ds |-> DigOf(xs.st)]
      /\ hist = [i \in DOMAIN SetupC |-> [who |-> "c", call |-> SetupC[i]]] \o [i \in DOMAIN SetupS |-> [who |-> "s", call |-> SetupS[i]]]

Spec == Init /\ [][Next]_vars
FairSpec == Spec /\ WF_vars(Deliver) /\ WF_vars(Duty) /\ WF_vars(PendSend) /\ WF_vars(Lose2) /\ WF_vars(ClientConnect)

(* ---- properties ---- *)
BriefP(h) == [i \in DOMAIN h |-> << h[i].who, h[i].call.op, h[i].call.pkt.kind, h[i].call.pkt.pid, h[i].call.pkt.qos,
                                    h[i].call.flag, h[i].call.pkt.alias, h[i].call.pkt.topic, h[i].call.pkt.msg >>]

NoViolation ==
  [][LET w == last'.who
         r == last'.rec
         v == ViolC01(pg, w, r, pg', last'.quiet, last'.oc, last'.os, last'.dc, last'.ds, last'.vacOK)
              \cup Viol(EndpointProps, Gh(w), Rc(w), r, IF w = "c" THEN gc' ELSE gs')
     IN  IF v = {} THEN TRUE ELSE PrintT(<< "SPECVIOL", ToJson([v |-> v, calls |-> BriefP(hist')]) >>) /\ FALSE]_vars

(* The exchange terminates (C01: "no endless response loop").  The environment's actions (AppOp, Lose, FirePing)
   are bounded by counters and carry no fairness; delivery, the application's duties, the send that follows an
   acquire, the second half of a loss and the reconnection are weakly fair.  Every fair behaviour must then reach
   quiescence and stay there: an endless exchange of responses, or a state from which a pending frame / duty can
   never be worked off, is a counterexample.  Checked by TLC under FairSpec (the pair_live configurations). *)
Terminates == <>[]Quiet(c, s, gc, gs, c2s, s2c, duties, pend, phase)

\* "to": the target state as a string - lets the driver rebuild the state GRAPH from the printed edges (the source of an
\* edge is the target of the edge that printed its history) and draw random walks through it
PrintEdge == PrintT(<< "E", ToJson([hist |-> hist', to |-> ToString(view')]) >>)
=============================================================================
