SPECIFICATION Spec
CONSTANT Mode = "c04"
CONSTANT Tier = "quick"
INVARIANT RefOK
ACTION_CONSTRAINT PrintItem
CHECK_DEADLOCK FALSE
