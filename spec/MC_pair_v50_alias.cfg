\* generated by lib/slices.py from pair slice 'pair_v50_alias' - do not edit
SPECIFICATION Spec
VIEW view
CHECK_DEADLOCK FALSE
PROPERTY NoViolation
ACTION_CONSTRAINT PrintEdge
CONSTANTS
 Ver = "v50"
 AutoPub = TRUE
 AutoPing = TRUE
 KA = 0
 SRM = 99999
 CRM = 99999
 STAM = 1
 CTAM = 1
 SMPS = 99999
 CMPS = 99999
 AutoMap = FALSE
 MaxOps = 3
 MaxLoss = 1
 MaxFire = 0
 Ops = {"pub0", "pub1"}
 Sides = {"c", "s"}
 AliasModes = {"bind", "none", "use"}
 Chunks = FALSE
 EndpointProps = {"C05", "C06", "C07", "C08", "C12", "C13", "C14", "C15", "C19"}
 Record = TRUE
