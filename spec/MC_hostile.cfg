\* generated by lib/slices.py from slice 'hostile' - do not edit
SPECIFICATION Spec
VIEW view
CHECK_DEADLOCK FALSE
PROPERTY NoViolation
ACTION_CONSTRAINT PrintEdge
CONSTANTS
 Roles = {"any", "client", "server"}
 Vers = {"undet", "v311", "v50"}
 Idws = {16}
 CheckProps = {"C05", "C06", "C07", "C08", "C10", "C11", "C12", "C13", "C14", "C15", "C16", "C17", "C19"}
 OptSets = {{}, {"auto_pub"}}
 RespTimeouts = {0}
 MaxConns = 2
 MaxHeld = 0
 MaxUsed = 2
 AppKinds = {}
 PeerKinds = {"pingreq", "puback", "pubcomp", "publish", "pubrec", "pubrel", "suback", "subscribe"}
 QosSet = {1, 2}
 Topics = {"t1"}
 Aliases = {0}
 InPids = {0, 1}
 ExtraPids = {0, 9}
 Rcs = {0}
 Cleans = {TRUE}
 KAs = {0}
 ConnRMs = {1, 99999}
 ConnTAMs = {0, 99999}
 ConnMPSs = {1, 99999}
 ConnSEIs = {99999}
 SPs = {FALSE}
 ConnackRcs = {0}
 AckRMs = {99999}
 AckTAMs = {0, 99999}
 AckMPSs = {1, 99999}
 AckSEIs = {99999}
 SKAs = {99999}
 RogueHandshake = FALSE
 PartialFrames = FALSE
 Intervals = {}
 Fire = FALSE
 Close = TRUE
 Erase = FALSE
 IdOps = FALSE
 Crash = FALSE
 Garbage = TRUE
 BadFrames = {"connack", "connect", "puback", "publish", "subscribe"}
 SendWhileDisc = FALSE
 PeerWhileDisc = TRUE
 LateFrames = FALSE
 CrossVersion = FALSE
 Restore = FALSE
 Regulate_ = FALSE
 OptFlips = {}
 FreeIdSends = FALSE
 LateSends = FALSE
 Msgs = {"m1"}
