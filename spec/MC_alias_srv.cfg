\* generated by lib/slices.py from slice 'alias_srv' - do not edit
SPECIFICATION Spec
VIEW view
CHECK_DEADLOCK FALSE
PROPERTY NoViolation
ACTION_CONSTRAINT PrintEdge
CONSTANTS
 Roles = {"server"}
 Vers = {"v50"}
 Idws = {16}
 CheckProps = {"C05", "C06", "C07", "C08", "C10", "C11", "C12", "C13", "C14", "C15", "C16", "C17", "C19"}
 OptSets = {{}, {"auto_map"}}
 RespTimeouts = {0}
 MaxConns = 2
 MaxHeld = 0
 MaxUsed = 2
 AppKinds = {"publish"}
 PeerKinds = {"publish"}
 QosSet = {0}
 Topics = {"", "t1", "t2"}
 Aliases = {0, 1, 2}
 InPids = {1}
 ExtraPids = {9}
 Rcs = {0}
 Cleans = {TRUE}
 KAs = {0}
 ConnRMs = {99999}
 ConnTAMs = {0, 1, 99999}
 ConnMPSs = {99999}
 ConnSEIs = {99999}
 SPs = {FALSE}
 ConnackRcs = {0}
 AckRMs = {99999}
 AckTAMs = {0, 2, 99999}
 AckMPSs = {99999}
 AckSEIs = {99999}
 SKAs = {99999}
 RogueHandshake = FALSE
 PartialFrames = FALSE
 Intervals = {}
 Fire = FALSE
 Close = TRUE
 Erase = FALSE
 IdOps = FALSE
 Crash = FALSE
 Garbage = FALSE
 BadFrames = {}
 SendWhileDisc = FALSE
 PeerWhileDisc = FALSE
 LateFrames = FALSE
 CrossVersion = FALSE
 Restore = FALSE
 Regulate_ = FALSE
 OptFlips = {}
 FreeIdSends = FALSE
 LateSends = FALSE
 Msgs = {"m1"}
