---------------------------- MODULE Replay_Codec ----------------------------
(***************************************************************************)
(* `./check <id> --replay <file>`: recompute the reference encoding of the *)
(* abstract packet stored in a replay file, so that the harness can        *)
(* re-execute exactly that vector.  Reads NDJSON items `{"p":..}` from     *)
(* IOEnv.ITEM and prints one vector per item (same form as MC_Codec).      *)
(***************************************************************************)
EXTENDS Codec, TLC, Json, IOUtils

Items == ndJsonDeserialize(IOEnv.ITEM)

VARIABLE i
Init == i = 0
Next == i < Len(Items) /\ i' = i + 1
Spec == Init /\ [][Next]_i

Vec(it) ==
  IF "cell" \in DOMAIN it
  THEN [p |-> it.p, enc |-> Enc(it.p), size |-> SizeOf(it.p), cell |-> it.cell]
  ELSE [p |-> it.p, enc |-> Enc(it.p), size |-> SizeOf(it.p)]
PrintItem == PrintT(<< "V", ToJson(Vec(Items[i'])) >>)
=============================================================================
