------------------------------- MODULE Codec -------------------------------
(***************************************************************************)
(* Wire-format reference for MQTT v3.1.1 and v5.0, transcribed from the    *)
(* OASIS specifications (mqtt-v3.1.1-os sections 2 and 3; mqtt-v5.0-os     *)
(* sections 1.5, 2 and 3), NOT from the library under test.                *)
(*                                                                         *)
(*  Enc(p)        wire image of abstract packet p as a sequence of         *)
(*                segments: <<"b", <<bytes>>>> literal bytes,              *)
(*                <<"r", byte, count>> a run of equal bytes                *)
(*  SizeOf(p)     length of that image, computed arithmetically            *)
(*  ValidPacket   the structural rules the library's builders enforce      *)
(*                (DESIGN appendix C), with the v5 property placement      *)
(*                table Allowed[loc][id], Repeatable[loc][id] and          *)
(*                ForbiddenValue transcribed from MQTT 5.0 table 2-4       *)
(*  Mutants(..)   malformed inputs for the decoder-totality check (C04)    *)
(*                                                                         *)
(* Abstract values                                                         *)
(*   string / binary / payload : a sequence of maximal runs <<byte,count>> *)
(*                               (so 65 535-byte fields are never          *)
(*                               materialised)                             *)
(*   optional x                : <<>> or <<x>>                             *)
(*   32-bit number             : [hi |-> 0..65535, lo |-> 0..65535]        *)
(*                               (TLC integers are 32-bit signed)          *)
(*   property                  : [id, n, s, t]  (n number, s string/binary *)
(*                               or key, t value of a string pair)         *)
(* Packets are records with k (kind), v ("v311" | "v50"), w (width of the  *)
(* packet identifier: 16, or the library's 32-bit extension) plus the      *)
(* fields of the kind; every operator dispatches on k first.               *)
(***************************************************************************)
EXTENDS Integers, Sequences, FiniteSets, SequencesExt

(* ------------------------------------------------------------------ bytes *)
B(bs)   == << "b", bs >>
R(b, c) == << "r", b, c >>
SegLen(s) == IF s[1] = "b" THEN Len(s[2]) ELSE s[3]
WLen(segs) == FoldLeft(LAMBDA acc, s : acc + SegLen(s), 0, segs)

B2I(b) == IF b THEN 1 ELSE 0
BE16(n) == << n \div 256, n % 256 >>
U32(h, l) == [hi |-> h, lo |-> l]
N(x) == U32(0, x)                        \* a number below 65536
BE32(u) == BE16(u.hi) \o BE16(u.lo)
IsZero(u) == u.hi = 0 /\ u.lo = 0

(* Variable Byte Integer (v5 1.5.5, v3.1.1 2.2.3): 7 bits per byte, least  *)
(* significant group first, bit 7 = continuation, at most 4 bytes.         *)
VbiMax == 268435455
RECURSIVE Vbi(_)
Vbi(n) == IF n < 128 THEN << n >> ELSE << 128 + (n % 128) >> \o Vbi(n \div 128)
VbiLen(n) == IF n < 128 THEN 1 ELSE IF n < 16384 THEN 2 ELSE IF n < 2097152 THEN 3 ELSE 4
(* decoder, used on the first bytes of what the implementation produced *)
RECURSIVE VbiDecFrom(_, _, _, _)
VbiDecFrom(bs, i, mult, acc) ==
  IF i > Len(bs) \/ i > 4 THEN [ok |-> FALSE, val |-> 0, len |-> 0]
  ELSE IF bs[i] < 128 THEN [ok |-> TRUE, val |-> acc + bs[i] * mult, len |-> i]
  ELSE VbiDecFrom(bs, i + 1, mult * 128, acc + (bs[i] - 128) * mult)
VbiDec(bs) == VbiDecFrom(bs, 1, 1, 0)

(* ---------------------------------------------------------------- strings *)
SLen(s) == FoldLeft(LAMBDA acc, r : acc + r[2], 0, s)
St(ch, n) == IF n = 0 THEN << >> ELSE << << ch, n >> >>
StrSegs(s) == << B(BE16(SLen(s))) >> \o [ i \in 1..Len(s) |-> R(s[i][1], s[i][2]) ]
StrSize(s) == 2 + SLen(s)
RawSegs(s) == [ i \in 1..Len(s) |-> R(s[i][1], s[i][2]) ]        \* PUBLISH payload: no prefix
Ascii(s) == \A i \in 1..Len(s) : s[i][1] < 128
Expand(s) == FlattenSeq([ i \in 1..Len(s) |-> [ j \in 1..s[i][2] |-> s[i][1] ] ])
(* maximal-run form of a byte sequence *)
RECURSIVE RunsFrom(_, _, _)
RunsFrom(bs, i, acc) ==
  IF i > Len(bs) THEN acc
  ELSE IF acc # << >> /\ acc[Len(acc)][1] = bs[i]
       THEN RunsFrom(bs, i + 1, [acc EXCEPT ![Len(acc)] = << bs[i], @[2] + 1 >>])
       ELSE RunsFrom(bs, i + 1, Append(acc, << bs[i], 1 >>))
Runs(bs) == RunsFrom(bs, 1, << >>)

(* Well-formed UTF-8 (RFC 3629 table 3-7, which MQTT 1.5.4 refers to). *)
In(x, a, b) == a <= x /\ x <= b
RECURSIVE Utf8From(_, _)
Utf8From(bs, i) ==
  IF i > Len(bs) THEN TRUE
  ELSE LET c == bs[i]
           n == Len(bs)
           T(j) == i + j <= n /\ In(bs[i + j], 128, 191)
       IN  IF c < 128 THEN Utf8From(bs, i + 1)
           ELSE IF In(c, 194, 223) THEN T(1) /\ Utf8From(bs, i + 2)
           ELSE IF c = 224 THEN i + 2 <= n /\ In(bs[i+1], 160, 191) /\ T(2) /\ Utf8From(bs, i + 3)
           ELSE IF In(c, 225, 236) \/ In(c, 238, 239) THEN T(1) /\ T(2) /\ Utf8From(bs, i + 3)
           ELSE IF c = 237 THEN i + 2 <= n /\ In(bs[i+1], 128, 159) /\ T(2) /\ Utf8From(bs, i + 3)
           ELSE IF c = 240 THEN i + 3 <= n /\ In(bs[i+1], 144, 191) /\ T(2) /\ T(3) /\ Utf8From(bs, i + 4)
           ELSE IF In(c, 241, 243) THEN T(1) /\ T(2) /\ T(3) /\ Utf8From(bs, i + 4)
           ELSE IF c = 244 THEN i + 3 <= n /\ In(bs[i+1], 128, 143) /\ T(2) /\ T(3) /\ Utf8From(bs, i + 4)
           ELSE FALSE
MaxExpand == 600
Utf8OK(s) == IF Ascii(s) THEN TRUE ELSE IF SLen(s) <= MaxExpand THEN Utf8From(Expand(s), 1) ELSE FALSE
StrOK(s) == SLen(s) <= 65535 /\ Utf8OK(s)
BinOK(s) == SLen(s) <= 65535
NoWild(s) == \A i \in 1..Len(s) : s[i][1] \notin {35, 43}          \* '#', '+'

(* v5 4.8.2 shared subscription "$share/{ShareName}/{filter}": ShareName at *)
(* least one character, no "/", "+" or "#"  (the rule the v5 builders apply) *)
SharePrefix == << 36, 115, 104, 97, 114, 101, 47 >>
ShareOK(s) ==
  IF s = << >> \/ s[1][1] # 36 \/ SLen(s) > MaxExpand THEN TRUE
  ELSE LET bs == Expand(s) IN
       IF Len(bs) < 7 \/ SubSeq(bs, 1, 7) # SharePrefix THEN TRUE
       ELSE LET rest == SubSeq(bs, 8, Len(bs))
                sl   == { i \in 1..Len(rest) : rest[i] = 47 }
            IN  /\ sl # {}
                /\ LET pos == CHOOSE i \in sl : \A j \in sl : i <= j
                   IN  pos >= 2 /\ \A i \in 1..(pos - 1) : rest[i] \notin {35, 43}

(* ------------------------------------------------------------- properties *)
(* MQTT 5.0 table 2-4: identifier, type, packets / will properties.        *)
PropIds == {1, 2, 3, 8, 9, 11, 17, 18, 19, 21, 22, 23, 24, 25, 26, 28, 31,
            33, 34, 35, 36, 37, 38, 39, 40, 41, 42}
PType(id) ==
  CASE id \in {1, 23, 25, 36, 37, 40, 41, 42} -> "u8"
    [] id \in {19, 33, 34, 35}                -> "u16"
    [] id \in {2, 17, 24, 39}                 -> "u32"
    [] id = 11                                -> "vbi"
    [] id \in {3, 8, 18, 21, 26, 28, 31}      -> "str"
    [] id \in {9, 22}                         -> "bin"
    [] id = 38                                -> "pair"
    [] OTHER                                  -> "none"

Locs == {"connect", "will", "connack", "publish", "puback", "pubrec", "pubrel", "pubcomp",
         "subscribe", "suback", "unsubscribe", "unsuback", "disconnect", "auth"}

AllowedAt ==
  [ connect     |-> {17, 21, 22, 23, 25, 33, 34, 38, 39},
    will        |-> {1, 2, 3, 8, 9, 24, 38},
    connack     |-> {17, 18, 19, 21, 22, 26, 28, 31, 33, 34, 36, 37, 38, 39, 40, 41, 42},
    publish     |-> {1, 2, 3, 8, 9, 11, 35, 38},
    puback      |-> {31, 38},
    pubrec      |-> {31, 38},
    pubrel      |-> {31, 38},
    pubcomp     |-> {31, 38},
    subscribe   |-> {11, 38},
    suback      |-> {31, 38},
    unsubscribe |-> {38},
    unsuback    |-> {31, 38},
    disconnect  |-> {17, 28, 31, 38},
    auth        |-> {21, 22, 31, 38} ]

Allowed    == [ loc \in Locs |-> [ id \in PropIds |-> id \in AllowedAt[loc] ] ]
(* User Property may appear any number of times anywhere; Subscription     *)
(* Identifier may repeat in PUBLISH only (3.3.2.3.8); in SUBSCRIBE a second *)
(* one is a Protocol Error (3.8.2.1.2); everything else at most once.      *)
Repeatable == [ loc \in Locs |-> [ id \in PropIds |-> id = 38 \/ (id = 11 /\ loc = "publish") ] ]

MkProp(i, num, str, str2) == [id |-> i, n |-> num, s |-> str, t |-> str2]
PNum(q) == q.n.hi * 65536 + q.n.lo          \* only for values known to fit (vbi)

(* value representable in the property's wire type *)
PropWellFormed(q) ==
  CASE PType(q.id) = "u8"   -> q.n.hi = 0 /\ q.n.lo <= 255
    [] PType(q.id) = "u16"  -> q.n.hi = 0
    [] PType(q.id) = "u32"  -> TRUE
    [] PType(q.id) = "vbi"  -> q.n.hi <= 4095                \* <= 268 435 455
    [] PType(q.id) = "str"  -> StrOK(q.s)
    [] PType(q.id) = "bin"  -> BinOK(q.s)
    [] PType(q.id) = "pair" -> StrOK(q.s) /\ StrOK(q.t)
    [] OTHER -> FALSE
(* values the specification forbids: byte properties that are flags        *)
(* (3.1.2.11.6/7, 3.2.2.3.4/5/12/13/14, 3.3.2.3.2) other than 0/1; zero     *)
(* Receive Maximum (3.1.2.11.3), Topic Alias (3.3.2.3.4), Maximum Packet   *)
(* Size (3.1.2.11.4), Subscription Identifier (3.8.2.1.2)                  *)
ForbiddenValue(q) ==
  \/ q.id \in {1, 23, 25, 36, 37, 40, 41, 42} /\ ~(q.n.hi = 0 /\ q.n.lo \in {0, 1})
  \/ q.id \in {33, 35, 39, 11} /\ IsZero(q.n)

PropSegs(q) ==
  << B(<< q.id >>) >> \o
  CASE PType(q.id) = "u8"   -> << B(<< q.n.lo >>) >>
    [] PType(q.id) = "u16"  -> << B(BE16(q.n.lo)) >>
    [] PType(q.id) = "u32"  -> << B(BE32(q.n)) >>
    [] PType(q.id) = "vbi"  -> << B(Vbi(PNum(q))) >>
    [] PType(q.id) = "str"  -> StrSegs(q.s)
    [] PType(q.id) = "bin"  -> StrSegs(q.s)
    [] PType(q.id) = "pair" -> StrSegs(q.s) \o StrSegs(q.t)
    [] OTHER -> << >>
PropSize(q) ==
  1 + CASE PType(q.id) = "u8"   -> 1
        [] PType(q.id) = "u16"  -> 2
        [] PType(q.id) = "u32"  -> 4
        [] PType(q.id) = "vbi"  -> VbiLen(PNum(q))
        [] PType(q.id) = "str"  -> StrSize(q.s)
        [] PType(q.id) = "bin"  -> StrSize(q.s)
        [] PType(q.id) = "pair" -> StrSize(q.s) + StrSize(q.t)
        [] OTHER -> 0
PropsSegs(ps) == FlattenSeq([ i \in 1..Len(ps) |-> PropSegs(ps[i]) ])
PropsSize(ps) == FoldLeft(LAMBDA acc, q : acc + PropSize(q), 0, ps)
PropBlockSize(ps) == VbiLen(PropsSize(ps)) + PropsSize(ps)

Count(ps, id) == Cardinality({ i \in 1..Len(ps) : ps[i].id = id })
Has(ps, id) == \E i \in 1..Len(ps) : ps[i].id = id
(* ----------------------------------------------------------- reason codes *)
RcConnack311 == 0..5                                           \* v3.1.1 table 3.1
RcSuback311  == {0, 1, 2, 128}                                 \* v3.1.1 3.9.3
RcConnack == {0, 128, 129, 130, 131, 132, 133, 134, 135, 136, 137, 138, 140, 144, 149, 151,
              153, 154, 155, 156, 157, 159}                    \* v5 table 3-1 (3.2.2.2)
RcPuback  == {0, 16, 128, 131, 135, 144, 145, 151, 153}        \* 3.4.2.1, 3.5.2.1
RcPubrel  == {0, 146}                                          \* 3.6.2.1, 3.7.2.1
RcSuback  == {0, 1, 2, 128, 131, 135, 143, 145, 151, 158, 161, 162}   \* 3.9.3
RcUnsuback == {0, 17, 128, 131, 135, 143, 145}                 \* 3.11.3
RcDisconnect == {0, 4, 128, 129, 130, 131, 135, 137, 139, 141, 142, 143, 144, 147, 148, 149,
                 150, 151, 152, 153, 154, 155, 156, 157, 158, 159, 160, 161, 162}   \* 3.14.2.1
RcAuth == {0, 24, 25}                                          \* 3.15.2.1
RcTable(k, v) ==
  CASE k = "connack"    -> IF v = "v311" THEN RcConnack311 ELSE RcConnack
    [] k \in {"puback", "pubrec"}  -> RcPuback
    [] k \in {"pubrel", "pubcomp"} -> RcPubrel
    [] k = "suback"     -> IF v = "v311" THEN RcSuback311 ELSE RcSuback
    [] k = "unsuback"   -> RcUnsuback
    [] k = "disconnect" -> RcDisconnect
    [] k = "auth"       -> RcAuth
    [] OTHER -> {}

(* ------------------------------------------------------------ the packets *)
Kinds311 == {"connect", "connack", "publish", "puback", "pubrec", "pubrel", "pubcomp", "subscribe",
             "suback", "unsubscribe", "unsuback", "pingreq", "pingresp", "disconnect"}
Kinds50  == Kinds311 \cup {"auth"}
HasPid == {"publish", "puback", "pubrec", "pubrel", "pubcomp", "subscribe", "suback",
           "unsubscribe", "unsuback"}
AckKinds == {"puback", "pubrec", "pubrel", "pubcomp"}
V5(p) == p.v = "v50"

(* first byte: packet type in bits 7-4, flags in bits 3-0 (2.2.1, 2.2.2 /   *)
(* v5 2.1.2, 2.1.3): reserved flags are 0 except PUBREL, SUBSCRIBE,        *)
(* UNSUBSCRIBE = 0010; PUBLISH = DUP, QoS (2 bits), RETAIN                 *)
TypeNo(k) ==
  CASE k = "connect" -> 1 [] k = "connack" -> 2 [] k = "publish" -> 3 [] k = "puback" -> 4
    [] k = "pubrec" -> 5 [] k = "pubrel" -> 6 [] k = "pubcomp" -> 7 [] k = "subscribe" -> 8
    [] k = "suback" -> 9 [] k = "unsubscribe" -> 10 [] k = "unsuback" -> 11 [] k = "pingreq" -> 12
    [] k = "pingresp" -> 13 [] k = "disconnect" -> 14 [] k = "auth" -> 15
FlagNibble(p) ==
  IF p.k = "publish" THEN 8 * B2I(p.dup) + 2 * p.qos + B2I(p.retain)
  ELSE IF p.k \in {"pubrel", "subscribe", "unsubscribe"} THEN 2 ELSE 0
FirstByte(p) == 16 * TypeNo(p.k) + FlagNibble(p)

PidSegs(p, id) == IF p.w = 16 THEN << B(BE16(id.lo)) >> ELSE << B(BE32(id)) >>
PidSize(p) == IF p.w = 16 THEN 2 ELSE 4

Part(name, segs) == [n |-> name, s |-> segs]
PropBlockParts(pre, ps) == << Part(pre \o "proplen", << B(Vbi(PropsSize(ps))) >>),
                              Part(pre \o "props", PropsSegs(ps)) >>

(* CONNECT flags (3.1.2.3): bit7 user name, bit6 password, bit5 will retain, *)
(* bits4-3 will QoS, bit2 will flag, bit1 clean session/start, bit0 reserved *)
ConnectFlags(p) ==
  128 * B2I(p.user # << >>) + 64 * B2I(p.pass # << >>)
  + (IF p.will # << >> THEN 32 * B2I(p.will[1].retain) + 8 * p.will[1].qos + 4 ELSE 0)
  + 2 * B2I(p.clean)
(* SUBSCRIBE options byte (v5 3.8.3.1): bits1-0 QoS, bit2 No Local, bit3    *)
(* Retain As Published, bits5-4 Retain Handling; v3.1.1 3.8.3: QoS only     *)
SubOpts(e) == e.qos + 4 * B2I(e.nl) + 8 * B2I(e.rap) + 16 * e.rh

Parts(p) ==
  CASE p.k = "connect" ->
         << Part("proto", << B(<< 0, 4, 77, 81, 84, 84 >>) >>),
            Part("level", << B(<< IF V5(p) THEN 5 ELSE 4 >>) >>),
            Part("cflags", << B(<< ConnectFlags(p) >>) >>),
            Part("ka", << B(BE16(p.ka)) >>) >>
         \o (IF V5(p) THEN PropBlockParts("", p.props) ELSE << >>)
         \o << Part("cid", StrSegs(p.cid)) >>
         \o (IF p.will = << >> THEN << >>
             ELSE (IF V5(p) THEN PropBlockParts("w", p.will[1].props) ELSE << >>)
                  \o << Part("wtopic", StrSegs(p.will[1].topic)),
                        Part("wpayload", StrSegs(p.will[1].payload)) >>)
         \o (IF p.user = << >> THEN << >> ELSE << Part("user", StrSegs(p.user[1])) >>)
         \o (IF p.pass = << >> THEN << >> ELSE << Part("pass", StrSegs(p.pass[1])) >>)
    [] p.k = "connack" ->
         << Part("ackflags", << B(<< B2I(p.sp) >>) >>), Part("rc", << B(<< p.rc >>) >>) >>
         \o (IF V5(p) THEN PropBlockParts("", p.props) ELSE << >>)
    [] p.k = "publish" ->
         << Part("topic", StrSegs(p.topic)) >>
         \o (IF p.pid = << >> THEN << >> ELSE << Part("pid", PidSegs(p, p.pid[1])) >>)
         \o (IF V5(p) THEN PropBlockParts("", p.props) ELSE << >>)
         \o << Part("payload", RawSegs(p.payload)) >>
    [] p.k \in AckKinds ->
         << Part("pid", PidSegs(p, p.pid)) >>
         \o (IF p.rc = << >> THEN << >> ELSE << Part("rc", << B(<< p.rc[1] >>) >>) >>)
         \o (IF p.props = << >> THEN << >> ELSE PropBlockParts("", p.props[1]))
    [] p.k = "subscribe" ->
         << Part("pid", PidSegs(p, p.pid)) >>
         \o (IF V5(p) THEN PropBlockParts("", p.props) ELSE << >>)
         \o [ i \in 1..Len(p.entries) |->
                Part("entry", StrSegs(p.entries[i].filter) \o << B(<< SubOpts(p.entries[i]) >>) >>) ]
    [] p.k = "suback" ->
         << Part("pid", PidSegs(p, p.pid)) >>
         \o (IF V5(p) THEN PropBlockParts("", p.props) ELSE << >>)
         \o << Part("codes", << B(p.codes) >>) >>
    [] p.k = "unsubscribe" ->
         << Part("pid", PidSegs(p, p.pid)) >>
         \o (IF V5(p) THEN PropBlockParts("", p.props) ELSE << >>)
         \o [ i \in 1..Len(p.filters) |-> Part("filter", StrSegs(p.filters[i])) ]
    [] p.k = "unsuback" ->
         << Part("pid", PidSegs(p, p.pid)) >>
         \o (IF V5(p) THEN PropBlockParts("", p.props) \o << Part("codes", << B(p.codes) >>) >>
             ELSE << >>)
    [] p.k \in {"disconnect", "auth"} ->
         IF ~V5(p) THEN << >>
         ELSE (IF p.rc = << >> THEN << >> ELSE << Part("rc", << B(<< p.rc[1] >>) >>) >>)
              \o (IF p.props = << >> THEN << >> ELSE PropBlockParts("", p.props[1]))
    [] OTHER -> << >>                                   \* pingreq, pingresp

Body(p) == LET ps == Parts(p) IN FlattenSeq([ i \in 1..Len(ps) |-> ps[i].s ])
HeaderOf(p, body) == << B(<< FirstByte(p) >> \o Vbi(WLen(body))) >>
Header(p) == HeaderOf(p, Body(p))
Enc(p) == LET b == Body(p) IN HeaderOf(p, b) \o b

(* the same length again, by arithmetic on the abstract fields only *)
WillSize(p) ==
  IF p.will = << >> THEN 0
  ELSE (IF V5(p) THEN PropBlockSize(p.will[1].props) ELSE 0)
       + StrSize(p.will[1].topic) + StrSize(p.will[1].payload)
OptStrSize(o) == IF o = << >> THEN 0 ELSE StrSize(o[1])
BodySize(p) ==
  CASE p.k = "connect" ->
         10 + (IF V5(p) THEN PropBlockSize(p.props) ELSE 0) + StrSize(p.cid) + WillSize(p)
         + OptStrSize(p.user) + OptStrSize(p.pass)
    [] p.k = "connack" -> 2 + (IF V5(p) THEN PropBlockSize(p.props) ELSE 0)
    [] p.k = "publish" ->
         StrSize(p.topic) + (IF p.pid = << >> THEN 0 ELSE PidSize(p))
         + (IF V5(p) THEN PropBlockSize(p.props) ELSE 0) + SLen(p.payload)
    [] p.k \in AckKinds ->
         PidSize(p) + Len(p.rc) + (IF p.props = << >> THEN 0 ELSE PropBlockSize(p.props[1]))
    [] p.k = "subscribe" ->
         PidSize(p) + (IF V5(p) THEN PropBlockSize(p.props) ELSE 0)
         + FoldLeft(LAMBDA acc, e : acc + StrSize(e.filter) + 1, 0, p.entries)
    [] p.k = "suback" -> PidSize(p) + (IF V5(p) THEN PropBlockSize(p.props) ELSE 0) + Len(p.codes)
    [] p.k = "unsubscribe" ->
         PidSize(p) + (IF V5(p) THEN PropBlockSize(p.props) ELSE 0)
         + FoldLeft(LAMBDA acc, f : acc + StrSize(f), 0, p.filters)
    [] p.k = "unsuback" -> PidSize(p) + (IF V5(p) THEN PropBlockSize(p.props) + Len(p.codes) ELSE 0)
    [] p.k \in {"disconnect", "auth"} ->
         IF ~V5(p) THEN 0
         ELSE Len(p.rc) + (IF p.props = << >> THEN 0 ELSE PropBlockSize(p.props[1]))
    [] OTHER -> 0
SizeOf(p) == 1 + VbiLen(BodySize(p)) + BodySize(p)

(* internal consistency of the reference, model-checked by MC_Codec        *)
RefConsistent(p) ==
  LET b  == Body(p)
      bl == WLen(b)
      h  == HeaderOf(p, b)[1][2]                    \* first byte + Remaining Length field
      d  == VbiDec(SubSeq(h, 2, Len(h)))
      bs == BodySize(p)
  IN  /\ SizeOf(p) = Len(h) + bl                    \* = WLen(Enc(p))
      /\ bs = bl
      /\ bs <= VbiMax
      /\ d.ok /\ d.val = bl /\ d.len = Len(h) - 1 /\ d.len = VbiLen(bs)

(* ------------------------------------------------------------ ValidPacket *)
(* The structural rules the library's builders enforce (DESIGN appendix C). *)
(* Broken(p) is the set of names of the rules p breaks.                     *)
If(c, name) == IF c THEN {} ELSE {name}
PidRule(p, id) == If(~IsZero(id) /\ (p.w = 16 => id.hi = 0), "pid-zero")

PropsBroken(loc, ps) ==
  If(\A i \in 1..Len(ps) : ps[i].id \in PropIds /\ Allowed[loc][ps[i].id], "prop-forbidden@" \o loc)
  \cup If(\A i \in 1..Len(ps) : ps[i].id \in PropIds => PropWellFormed(ps[i]), "prop-malformed@" \o loc)
  \cup If(\A i \in 1..Len(ps) : ps[i].id \in PropIds => ~ForbiddenValue(ps[i]), "prop-value@" \o loc)
  \cup If(\A i \in 1..Len(ps) : ps[i].id \in PropIds /\ Count(ps, ps[i].id) > 1 => Repeatable[loc][ps[i].id],
          "prop-duplicate@" \o loc)
PropsOK(loc, ps) == PropsBroken(loc, ps) = {}
NoProps(p, ps) == If(ps = << >>, "props-in-v311")

EntryBroken(p, e) ==
  If(StrOK(e.filter), "filter-utf8") \cup If(e.qos \in 0..2, "sub-qos-3") \cup If(e.rh \in 0..2, "sub-rh-3")
  \cup If(V5(p) => ShareOK(e.filter), "share-name")

Broken(p) ==
  CASE p.k = "connect" ->
         If(p.ka \in 0..65535, "keep-alive")
         \cup If(StrOK(p.cid), "cid-utf8")
         \cup If(p.pass # << >> => p.user # << >>, "password-without-user")
         \cup If(p.user # << >> => StrOK(p.user[1]), "user-utf8")
         \cup If(p.pass # << >> => BinOK(p.pass[1]), "password-length")
         \cup (IF p.will = << >> THEN {}
               ELSE If(p.will[1].qos \in 0..2, "will-qos-3")
                    \cup If(StrOK(p.will[1].topic), "wtopic-utf8")
                    \cup If(BinOK(p.will[1].payload), "wpayload-length")
                    \cup (IF V5(p) THEN PropsBroken("will", p.will[1].props) ELSE NoProps(p, p.will[1].props)))
         \cup (IF V5(p) THEN PropsBroken("connect", p.props) ELSE NoProps(p, p.props))
    [] p.k = "connack" ->
         If(p.rc \in RcTable("connack", p.v), "rc-invalid")
         \cup (IF V5(p) THEN PropsBroken("connack", p.props) ELSE NoProps(p, p.props))
    [] p.k = "publish" ->
         If(p.qos \in 0..2, "qos-3")
         \cup If(p.qos = 0 <=> p.pid = << >>, "pid-presence")
         \cup (IF p.pid = << >> THEN {} ELSE PidRule(p, p.pid[1]))
         \cup If(StrOK(p.topic), "topic-utf8")
         \cup If(NoWild(p.topic), "topic-wildcard")
         \cup If(IF V5(p) THEN (SLen(p.topic) = 0 => Has(p.props, 35)) ELSE SLen(p.topic) > 0, "topic-empty")
         \cup If(SLen(p.payload) <= VbiMax, "payload-length")
         \cup (IF V5(p) THEN PropsBroken("publish", p.props) ELSE NoProps(p, p.props))
    [] p.k \in AckKinds ->
         PidRule(p, p.pid)
         \cup If(p.rc # << >> => p.rc[1] \in RcTable(p.k, "v50"), "rc-invalid")
         \cup (IF p.props = << >> THEN {}
               ELSE If(V5(p), "props-in-v311") \cup If(p.rc # << >>, "props-without-rc")
                    \cup PropsBroken(p.k, p.props[1]))
    [] p.k = "subscribe" ->
         PidRule(p, p.pid)
         \cup If(p.entries # << >>, "entries-empty")
         \cup UNION { EntryBroken(p, p.entries[i]) : i \in 1..Len(p.entries) }
         \cup (IF V5(p) THEN PropsBroken("subscribe", p.props) ELSE NoProps(p, p.props))
    [] p.k = "suback" ->
         PidRule(p, p.pid)
         \cup If(p.codes # << >>, "codes-empty")
         \cup If(\A i \in 1..Len(p.codes) : p.codes[i] \in RcTable("suback", p.v), "rc-invalid")
         \cup (IF V5(p) THEN PropsBroken("suback", p.props) ELSE NoProps(p, p.props))
    [] p.k = "unsubscribe" ->
         PidRule(p, p.pid)
         \cup If(p.filters # << >>, "entries-empty")
         \cup If(\A i \in 1..Len(p.filters) : StrOK(p.filters[i]), "filter-utf8")
         \cup If(\A i \in 1..Len(p.filters) : V5(p) => ShareOK(p.filters[i]), "share-name")
         \cup (IF V5(p) THEN PropsBroken("unsubscribe", p.props) ELSE NoProps(p, p.props))
    [] p.k = "unsuback" ->
         PidRule(p, p.pid)
         \cup (IF V5(p)
               THEN If(p.codes # << >>, "codes-empty")
                    \cup If(\A i \in 1..Len(p.codes) : p.codes[i] \in RcUnsuback, "rc-invalid")
                    \cup PropsBroken("unsuback", p.props)
               ELSE If(p.codes = << >>, "codes-in-v311") \cup NoProps(p, p.props))
    [] p.k = "disconnect" ->
         IF ~V5(p) THEN If(p.rc = << >> /\ p.props = << >>, "fields-in-v311")
         ELSE If(p.rc # << >> => p.rc[1] \in RcDisconnect, "rc-invalid")
              \cup (IF p.props = << >> THEN {}
                    ELSE If(p.rc # << >>, "props-without-rc") \cup PropsBroken("disconnect", p.props[1]))
    [] p.k = "auth" ->
         If(V5(p), "auth-in-v311")
         \cup If(p.rc # << >> => p.rc[1] \in RcAuth, "rc-invalid")
         \cup (IF p.props = << >> THEN If(p.rc # << >> => p.rc[1] = 0, "auth-continue-without-method")
               ELSE If(p.rc # << >>, "props-without-rc")
                    \cup PropsBroken("auth", p.props[1])
                    \* v5 4.12 / 3.15.2.2, as applied by the AUTH builder
                    \cup If(Has(p.props[1], 22) => Has(p.props[1], 21), "auth-data-without-method")
                    \cup If(p.rc # << >> /\ p.rc[1] # 0 => Has(p.props[1], 21), "auth-continue-without-method"))
    [] OTHER -> {}
ValidPacket(p) == Broken(p) = {}

(* ======================================================================= *)
(* The abstract packet domain (C02, C03): every field has a default and a  *)
(* set of alternatives; packets deviate from the default in at most one /  *)
(* two / three fields at once.                                             *)
(* ======================================================================= *)
OneWise(d, D) == {d} \cup UNION { { [d EXCEPT ![f] = x] : x \in D[f] } : f \in DOMAIN D }
TwoWiseAt(d, D, f) == UNION { { [d EXCEPT ![f] = x, ![g] = y] : x \in D[f], y \in D[g] } : g \in DOMAIN D }
TwoWise(d, D) == UNION { TwoWiseAt(d, D, f) : f \in DOMAIN D }
ThreeWiseAt(d, D, f) ==
  UNION { UNION { { [d EXCEPT ![f] = x, ![g] = y, ![h] = z] : x \in D[f], y \in D[g], z \in D[h] }
                  : h \in DOMAIN D } : g \in DOMAIN D }

(* length lattice: both sides of every length-encoding boundary, and of the *)
(* small-string inline-buffer thresholds (12/24/48 bytes including the     *)
(* 2-byte prefix, i.e. 10/22/46 bytes of data)                              *)
LenSmall == {0, 1, 127, 128, 65535}
(* 35 and 43 are the codes of '#' and '+': a length whose prefix bytes LOOK like wildcard characters *)
LenFull  == {0, 1, 10, 11, 12, 13, 22, 23, 24, 25, 35, 43, 46, 47, 48, 49, 127, 128, 8960, 16383, 16384, 65535}
PayFull  == {0, 1, 15, 16, 31, 32, 127, 128, 255, 256, 16383, 16384, 65535, 65536, 2097152}
PaySmall == {0, 1, 128, 16384}

Strs(ch, L) == { St(ch, n) : n \in L }
(* some non-ASCII contents: 2-, 3- and 4-byte UTF-8 sequences (length is in bytes) *)
Utf8Samples == { << <<195, 1>>, <<169, 1>> >>,
                 << <<226, 1>>, <<130, 1>>, <<172, 1>>, <<97, 9>> >>,
                 << <<240, 1>>, <<159, 1>>, <<152, 1>>, <<128, 1>>, <<122, 3>> >> }

(* unusual CONTENT (not length): the code points on both sides of every UTF-8 length class and of the
   surrogate gap, U+0000 (the library accepts it on both sides), controls, BOM, the last code point *)
Unusual == { << <<97, 1>>, <<0, 1>>, <<98, 1>> >>,                         \* a U+0000 b
             << <<1, 1>> >>,                                                \* U+0001
             << <<127, 1>>, <<97, 1>> >>,                                   \* U+007F a
             << <<194, 1>>, <<128, 1>> >>,                                  \* U+0080
             << <<223, 1>>, <<191, 1>> >>,                                  \* U+07FF
             << <<224, 1>>, <<160, 1>>, <<128, 1>> >>,                      \* U+0800
             << <<237, 1>>, <<159, 1>>, <<191, 1>> >>,                      \* U+D7FF
             << <<238, 1>>, <<128, 2>> >>,                                  \* U+E000
             << <<239, 1>>, <<187, 1>>, <<191, 1>> >>,                      \* U+FEFF
             << <<239, 1>>, <<191, 2>> >>,                                  \* U+FFFF
             << <<240, 1>>, <<144, 1>>, <<128, 2>> >>,                      \* U+10000
             << <<244, 1>>, <<143, 1>>, <<191, 2>> >> }                     \* U+10FFFF

(* values of one property kind *)
PropVals(id, L) ==
  CASE id \in {1, 23, 25, 36, 37, 40, 41, 42} -> { MkProp(id, N(x), << >>, << >>) : x \in {0, 1} }
    [] id \in {19, 34}     -> { MkProp(id, N(x), << >>, << >>) : x \in {0, 1, 255, 256, 65535} }
    [] id \in {33, 35}     -> { MkProp(id, N(x), << >>, << >>) : x \in {1, 255, 256, 65535} }
    [] id \in {2, 17, 24}  -> { MkProp(id, u, << >>, << >>) :
                                  u \in {U32(0, 0), U32(0, 1), U32(1, 0), U32(32768, 0), U32(65535, 65535)} }
    [] id = 39             -> { MkProp(id, u, << >>, << >>) :
                                  u \in {U32(0, 1), U32(0, 65535), U32(1, 0), U32(32768, 0), U32(65535, 65535)} }
    [] id = 11             -> { MkProp(id, u, << >>, << >>) :
                                  u \in {U32(0, 1), U32(0, 127), U32(0, 128), U32(0, 16383), U32(0, 16384),
                                         U32(31, 65535), U32(32, 0), U32(4095, 65535)} }
    [] id \in {3, 8, 18, 21, 26, 28, 31} -> { MkProp(id, N(0), s, << >>) : s \in Strs(65 + (id % 26), L) \cup Unusual }
    [] id \in {9, 22}      -> { MkProp(id, N(0), s, << >>) : s \in Strs(id, L) }
    [] id = 38             -> { MkProp(id, N(0), St(107, m[1]), St(118, m[2])) :
                                  m \in { <<a, a>> : a \in L } \cup { <<0, 1>>, <<1, 0>>, <<65535, 1>>, <<10, 11>> } }
                              \cup { MkProp(id, N(0), u, St(118, 2)) : u \in Unusual }
                              \cup { MkProp(id, N(0), St(107, 2), u) : u \in Unusual }
    [] OTHER -> {}

OneVal(id) ==                     \* one ordinary value of each kind
  CASE PType(id) \in {"u8", "u16", "u32", "vbi"} -> MkProp(id, N(1), << >>, << >>)
    [] PType(id) = "pair" -> MkProp(id, N(0), St(107, 3), St(118, 5))
    [] OTHER -> MkProp(id, N(0), St(65 + (id % 26), 4), << >>)

SetToSortedSeq(S) == SetToSortSeq(S, LAMBDA a, b : a < b)
AllAllowed(loc) == LET ids == SetToSortedSeq(AllowedAt[loc]) IN [ i \in 1..Len(ids) |-> OneVal(ids[i]) ]

(* property lists for one location *)
PropLists(loc, L) ==
  { << >> }
  \cup UNION { { << q >> : q \in PropVals(id, L) } : id \in AllowedAt[loc] }
  \cup { AllAllowed(loc), Reverse(AllAllowed(loc)) }
  \cup { << OneVal(38), OneVal(38) >>, << OneVal(38), MkProp(38, N(0), St(75, 1), << >>), OneVal(38) >> }
  \cup (IF loc = "publish" THEN { << OneVal(11), MkProp(11, U32(0, 200), << >>, << >>), OneVal(35) >> } ELSE {})
  \* PUBLISH property blocks of 125..127 bytes (and 128..130 with the 3-byte Topic Alias): the public rewrites that add /
  \* remove the Topic Alias move them across the one-byte / two-byte Property Length boundary; the same at 16383 / 16384
  \cup (IF loc = "publish"
        THEN { << MkProp(38, N(0), St(107, 60), St(118, b)) >> : b \in {60, 61, 62} }
             \cup { << MkProp(38, N(0), St(107, 60), St(118, b)), OneVal(35) >> : b \in {60, 61, 62} }
             \cup { << MkProp(38, N(0), St(107, 8000), St(118, b)) >> : b \in {8376, 8377, 8378} }
             \cup { << MkProp(38, N(0), St(107, 8000), St(118, b)), OneVal(35) >> : b \in {8376, 8377, 8378} }
        ELSE {})
  \cup { << MkProp(38, N(0), St(107, a), St(118, b)) >> \o AllAllowed(loc) :   \* property length 127/128, 16383/16384
           a \in {0}, b \in {100, 16200} }
PropListsSmall(loc) ==
  { << >>, AllAllowed(loc), << OneVal(38), OneVal(38) >>,
    << MkProp(38, N(0), St(107, 60), St(118, 62)) >>, << MkProp(38, N(0), St(107, 60), St(118, 63)) >>,
    << MkProp(38, N(0), St(107, 8000), St(118, 8378)) >>, << MkProp(38, N(0), St(107, 8000), St(118, 8379)) >> }

Pid16s == { N(1), N(255), N(256), N(65535) }
Pid32s == { N(1), N(65535), U32(1, 0), U32(255, 65535), U32(32768, 0), U32(65535, 65535) }
Pids(w) == IF w = 16 THEN Pid16s ELSE Pid32s
PidsSmall(w) == IF w = 16 THEN { N(1), N(65535) } ELSE { N(1), U32(65535, 65535) }

Hdr(k, v, w) == [k |-> k, v |-> v, w |-> w]
Merge(a, b) == [ f \in DOMAIN a \cup DOMAIN b |-> IF f \in DOMAIN b THEN b[f] ELSE a[f] ]

WillRec(q, r, t, m, ps) == [qos |-> q, retain |-> r, topic |-> t, payload |-> m, props |-> ps]
DefWill == WillRec(0, FALSE, St(119, 2), St(109, 3), << >>)
Wills(v, L) ==
  { << >>, << DefWill >> }
  \cup { << [DefWill EXCEPT !.qos = q, !.retain = r] >> : q \in 0..2, r \in BOOLEAN }
  \cup { << [DefWill EXCEPT !.topic = s] >> : s \in Strs(119, L) \cup Unusual }
  \cup { << [DefWill EXCEPT !.payload = s] >> : s \in Strs(109, L) }
  \cup (IF v = "v50" THEN { << [DefWill EXCEPT !.props = ps] >> : ps \in PropLists("will", LenSmall) } ELSE {})
WillsSmall(v) ==
  { << >>, << DefWill >>, << [DefWill EXCEPT !.qos = 2, !.retain = TRUE, !.payload = << >>] >> }
  \cup (IF v = "v50" THEN { << [DefWill EXCEPT !.props = AllAllowed("will")] >> } ELSE {})

OptStrs(ch, L) == { << >> } \cup { << s >> : s \in Strs(ch, L) }
OptTexts(ch, L) == OptStrs(ch, L) \cup { << s >> : s \in Unusual }

EntryRec(f, q, n, r, h) == [filter |-> f, qos |-> q, nl |-> n, rap |-> r, rh |-> h]
DefEntry == EntryRec(St(102, 3), 0, FALSE, FALSE, 0)
Share(bs, ch, n) == Runs(SharePrefix \o bs) \o St(ch, n)
EntryLists(v, L) ==
  { << DefEntry >> }
  \cup { << [DefEntry EXCEPT !.filter = s] >> : s \in (Strs(102, L) \ {<< >>}) \cup Unusual }
  \cup { << [DefEntry EXCEPT !.qos = q] >> : q \in 0..2 }
  \cup { << DefEntry, [DefEntry EXCEPT !.qos = 1, !.filter = St(35, 1)], [DefEntry EXCEPT !.qos = 2, !.filter = St(43, 1)] >> }
  \cup { << [DefEntry EXCEPT !.filter = << >>] >> }
  \cup (IF v = "v50"
        THEN { << [DefEntry EXCEPT !.nl = n, !.rap = r, !.rh = h, !.qos = q] >> :
                 n \in BOOLEAN, r \in BOOLEAN, h \in 0..2, q \in {0, 2} }
             \cup { << [DefEntry EXCEPT !.filter = Share(<< 103, 47 >>, 116, 4)] >>,       \* $share/g/tttt
                    << [DefEntry EXCEPT !.filter = Share(<< 103, 47 >>, 116, 0)] >> }      \* $share/g/
        ELSE {})
FilterLists(v, L) ==
  { << St(102, 3) >>, << St(102, 3), St(103, 1), << >> >>, << << >> >> }
  \cup { << s >> : s \in Strs(102, L) \cup Unusual }
  \cup (IF v = "v50" THEN { << Share(<< 103, 47 >>, 116, 4) >> } ELSE {})
CodeLists(S) ==
  { << c >> : c \in S } \cup { SetToSortedSeq(S) } \cup { [ i \in 1..n |-> 0 ] : n \in {127, 128} }

(* default packet of kind k (the alternatives of every field: Alt below)    *)
Def(k, v, w) ==
  Merge(Hdr(k, v, w),
  CASE k = "connect" -> [clean |-> TRUE, ka |-> 60, cid |-> St(99, 4), will |-> << >>, user |-> << >>,
                         pass |-> << >>, props |-> << >>]
    [] k = "connack" -> [sp |-> FALSE, rc |-> 0, props |-> << >>]
    [] k = "publish" -> [qos |-> 1, dup |-> FALSE, retain |-> FALSE, pid |-> << N(1) >>, topic |-> St(116, 5),
                         payload |-> St(120, 7), props |-> << >>]
    [] k \in AckKinds -> [pid |-> N(1), rc |-> << >>, props |-> << >>]
    [] k = "subscribe" -> [pid |-> N(1), props |-> << >>, entries |-> << DefEntry >>]
    [] k = "suback" -> [pid |-> N(1), props |-> << >>, codes |-> << 0 >>]
    [] k = "unsubscribe" -> [pid |-> N(1), props |-> << >>, filters |-> << St(102, 3) >>]
    [] k = "unsuback" -> [pid |-> N(1), props |-> << >>, codes |-> IF v = "v50" THEN << 0 >> ELSE << >>]
    [] k \in {"disconnect", "auth"} -> [rc |-> << >>, props |-> << >>]
    [] OTHER -> [x |-> 0])

LenMed == {0, 1, 12, 13, 127, 128, 16383, 65535}
PayMed == {0, 1, 127, 128, 16384, 65536}
PropListsMed(loc) == PropListsSmall(loc) \cup { << OneVal(id) >> : id \in AllowedAt[loc] }

(* lvl "full": the whole lattice in every field; "med" / "small": the reduced sets used for products *)
Alt(k, v, w, lvl) ==
  LET full == lvl = "full"
      med  == lvl = "med"
      L  == IF full THEN LenFull ELSE IF med THEN LenMed ELSE LenSmall
      PLv(loc) == IF full THEN PropLists(loc, LenSmall) ELSE IF med THEN PropListsMed(loc) ELSE PropListsSmall(loc)
      PL(loc) == IF v = "v50" THEN PLv(loc) ELSE {}
      OPL(loc) == IF v = "v50" THEN { << >> } \cup { << ps >> : ps \in PLv(loc) } ELSE {}
      PS == IF full \/ med THEN Pids(w) ELSE PidsSmall(w)
      RC(S, few) == IF full \/ med THEN S ELSE few \cap S
  IN
  CASE k = "connect" ->
         [clean |-> {FALSE}, ka |-> IF full THEN {0, 1, 255, 256, 65535} ELSE {0, 65535},
          cid |-> Strs(99, L) \cup (IF full THEN Utf8Samples \cup Unusual ELSE {}),
          will |-> IF full THEN Wills(v, L) ELSE IF med THEN Wills(v, {0, 65535}) ELSE WillsSmall(v),
          user |-> IF full THEN OptTexts(117, L) ELSE OptStrs(117, L), pass |-> OptStrs(112, L), props |-> PL("connect")]
    [] k = "connack" ->
         [sp |-> {TRUE}, rc |-> RC(RcTable("connack", v) \ {0}, {5, 135}), props |-> PL("connack")]
    [] k = "publish" ->
         [qos |-> {0, 2}, dup |-> {TRUE}, retain |-> {TRUE}, pid |-> { << x >> : x \in PS },
          topic |-> Strs(116, L \ {0}) \cup (IF full THEN Utf8Samples \cup Unusual ELSE {}),
          payload |-> Strs(120, IF full THEN PayFull ELSE IF med THEN PayMed ELSE PaySmall),
          props |-> PL("publish")]
    [] k \in AckKinds ->
         [pid |-> PS, rc |-> { << c >> : c \in RC(RcTable(k, "v50"), {0, 16, 146}) }, props |-> OPL(k)]
    [] k = "subscribe" ->
         [pid |-> PS, props |-> PL("subscribe"),
          entries |-> IF full THEN EntryLists(v, L) ELSE IF med THEN EntryLists(v, {1, 12, 13, 65535}) ELSE EntryLists(v, {1, 65535})]
    [] k = "suback" ->
         [pid |-> PS, props |-> PL("suback"), codes |-> CodeLists(RcTable("suback", v))]
    [] k = "unsubscribe" ->
         [pid |-> PS, props |-> PL("unsubscribe"),
          filters |-> IF full THEN FilterLists(v, L) ELSE IF med THEN FilterLists(v, {1, 12, 13, 65535}) ELSE FilterLists(v, {1, 65535})]
    [] k = "unsuback" ->
         [pid |-> PS, props |-> PL("unsuback"), codes |-> IF v = "v50" THEN CodeLists(RcUnsuback) ELSE {}]
    [] k \in {"disconnect", "auth"} ->
         [rc |-> IF v = "v50" THEN { << c >> : c \in RcTable(k, v) } ELSE {}, props |-> OPL(k)]
    [] OTHER -> [x |-> {}]

(* dependent fields: what a combination must look like to be expressible   *)
Fix(p) ==
  CASE p.k = "publish" ->
         LET q == IF p.qos = 0 THEN [p EXCEPT !.pid = << >>]
                  ELSE IF p.pid = << >> THEN [p EXCEPT !.pid = << N(1) >>] ELSE p
         IN  q
    [] p.k \in AckKinds \cup {"disconnect"} ->
         IF p.props # << >> /\ p.rc = << >> THEN [p EXCEPT !.rc = << 0 >>] ELSE p
    [] p.k = "auth" ->
         \* the AUTH builder always adds a (possibly empty) property list once a reason code is set
         LET q == IF p.props # << >> /\ p.rc = << >> THEN [p EXCEPT !.rc = << 0 >>] ELSE p
             r == IF q.rc # << >> /\ q.props = << >> THEN [q EXCEPT !.props = << << >> >>] ELSE q
         IN  IF r.rc # << >> /\ r.rc[1] # 0 /\ ~Has(r.props[1], 21)
             THEN [r EXCEPT !.props = << << OneVal(21) >> \o r.props[1] >>] ELSE r
    [] p.k = "connect" ->
         IF p.pass # << >> /\ p.user = << >> THEN [p EXCEPT !.user = << St(117, 1) >>] ELSE p
    [] OTHER -> p

KindVers == { << k, "v311" >> : k \in Kinds311 } \cup { << k, "v50" >> : k \in Kinds50 }
Widths(k) == IF k \in HasPid THEN {16, 32} ELSE {16}
Groups == UNION { { Hdr(kv[1], kv[2], w) : w \in Widths(kv[1]) } : kv \in KindVers }

(* quick: all pairs of fields over the full lattice; thorough: all pairs    *)
(* and all triples.  (MC_Codec enumerates the same sets slice by slice.)    *)
DomRaw(g, tier) ==
  LET d == Def(g.k, g.v, g.w)
      F == Alt(g.k, g.v, g.w, "full")
      M == Alt(g.k, g.v, g.w, "med")
  IN  IF g.k \in {"pingreq", "pingresp"} THEN { Hdr(g.k, g.v, g.w) }
      ELSE IF g.k = "disconnect" /\ g.v = "v311" THEN { d }
      ELSE IF tier = "quick" THEN TwoWise(d, F)
      ELSE TwoWise(d, F) \cup UNION { ThreeWiseAt(d, F, f) : f \in DOMAIN F }
Dom(g, tier) == { q \in { Fix(x) : x \in DomRaw(g, tier) } : ValidPacket(q) }

(* PUBLISH packets whose Remaining Length sits on both sides of every       *)
(* boundary of the variable byte integer (127/128, 16 383/16 384,           *)
(* 2 097 151/2 097 152)                                                     *)
FitPayload(p, target) ==
  LET rest == BodySize([p EXCEPT !.payload = << >>]) IN
  IF target >= rest THEN { [p EXCEPT !.payload = St(120, target - rest)] } ELSE {}
RlBoundary(g) ==
  IF g.k # "publish" THEN {}
  ELSE UNION { FitPayload(Def(g.k, g.v, g.w), t) : t \in {127, 128, 16383, 16384, 2097151, 2097152} }

(* ======================================================================= *)
(* C18: the whole placement table.                                         *)
(* ======================================================================= *)
CellVals(id) ==
  CASE id \in {1, 23, 25, 36, 37, 40, 41, 42} -> { MkProp(id, N(x), << >>, << >>) : x \in {0, 1, 2, 255} }
    [] id \in {33, 35}     -> { MkProp(id, N(x), << >>, << >>) : x \in {0, 1, 65535} }
    [] id \in {19, 34}     -> { MkProp(id, N(x), << >>, << >>) : x \in {0, 65535} }
    [] id = 39             -> { MkProp(id, u, << >>, << >>) : u \in {U32(0, 0), U32(0, 1), U32(65535, 65535)} }
    [] id \in {2, 17, 24}  -> { MkProp(id, u, << >>, << >>) : u \in {U32(0, 0), U32(65535, 65535)} }
    [] id = 11             -> { MkProp(id, u, << >>, << >>) : u \in {U32(0, 0), U32(0, 1), U32(4095, 65535)} }
    [] OTHER               -> { OneVal(id) }
(* a valid packet of the location's kind around the property list           *)
CellPacket(loc, ps) ==
  CASE loc = "connect" -> [Def("connect", "v50", 16) EXCEPT !.props = ps]
    [] loc = "will"    -> [Def("connect", "v50", 16) EXCEPT !.will = << [DefWill EXCEPT !.props = ps] >>]
    [] loc \in AckKinds \cup {"disconnect"} -> [Def(loc, "v50", 16) EXCEPT !.rc = << 0 >>, !.props = << ps >>]
    [] loc = "auth"    -> [Def("auth", "v50", 16) EXCEPT !.rc = << 0 >>,
                             !.props = << IF Has(ps, 22) /\ ~Has(ps, 21) THEN << OneVal(21) >> \o ps ELSE ps >>]
    [] OTHER           -> [Def(loc, "v50", 16) EXCEPT !.props = ps]
CellsOf(loc, id) == { [loc |-> loc, id |-> id, cnt |-> c, val |-> q] : c \in {1, 2}, q \in CellVals(id) }
CellProps(c) == [ i \in 1..c.cnt |-> c.val ]
CellExpect(c) == /\ Allowed[c.loc][c.id]
                 /\ (c.cnt = 1 \/ Repeatable[c.loc][c.id])
                 /\ ~ForbiddenValue(c.val)

(* ======================================================================= *)
(* C04: malformed inputs. A seed is a small valid packet (all segments      *)
(* literal once flattened); a mutant is a (flags, body) pair for the        *)
(* parser of the seed's kind.                                               *)
(* ======================================================================= *)
Flat(segs) == FlattenSeq([ i \in 1..Len(segs) |->
                 IF segs[i][1] = "b" THEN segs[i][2] ELSE [ j \in 1..segs[i][3] |-> segs[i][2] ] ])
FlatBody(p) == Flat(Body(p))
(* offset (0-based) of the first part called name, -1 if absent *)
PartOffset(p, name) ==
  LET ps == Parts(p)
      S  == { i \in 1..Len(ps) : ps[i].n = name }
  IN  IF S = {} THEN -1
      ELSE LET i == CHOOSE x \in S : \A y \in S : x <= y
           IN  FoldLeft(LAMBDA acc, q : acc + WLen(q.s), 0, SubSeq(ps, 1, i - 1))
PartLen(p, name) ==
  LET ps == Parts(p)
      S  == { i \in 1..Len(ps) : ps[i].n = name }
  IN  IF S = {} THEN 0 ELSE WLen(ps[CHOOSE x \in S : \A y \in S : x <= y].s)
Pow2(k) == CASE k = 0 -> 1 [] k = 1 -> 2 [] k = 2 -> 4 [] k = 3 -> 8 [] k = 4 -> 16 [] k = 5 -> 32
             [] k = 6 -> 64 [] k = 7 -> 128
FlipBit(b, k) == IF (b \div Pow2(k)) % 2 = 1 THEN b - Pow2(k) ELSE b + Pow2(k)

Mut(p, fl, bs, opname, rej) ==
  [k |-> p.k, v |-> p.v, w |-> p.w, flags |-> fl, body |-> bs, op |-> opname, reject |-> rej]

(* semantic corruptions: abstract packets that break exactly one builder    *)
(* rule; their encoding is Enc of the corrupted packet                      *)
BadRc(k, v) == {1, 3, 127, 255} \ RcTable(k, v)
ZeroPid(p) == IF p.k = "publish" THEN [p EXCEPT !.pid = << N(0) >>] ELSE [p EXCEPT !.pid = N(0)]
WithProps(p, loc, f(_)) ==
  CASE loc = "will" -> [p EXCEPT !.will = << [p.will[1] EXCEPT !.props = f(p.will[1].props)] >>]
    [] p.k \in AckKinds \cup {"disconnect", "auth"} ->
         [p EXCEPT !.props = << f(IF p.props = << >> THEN << >> ELSE p.props[1]) >>,
                   !.rc = IF p.rc = << >> THEN << 0 >> ELSE p.rc]
    [] OTHER -> [p EXCEPT !.props = f(p.props)]
LocsOf(p) == IF ~V5(p) THEN {} ELSE IF p.k = "connect" THEN (IF p.will = << >> THEN {"connect"} ELSE {"connect", "will"})
             ELSE IF p.k \in Locs THEN {p.k} ELSE {}
PropsAt(p, loc) ==
  IF loc = "will" THEN p.will[1].props
  ELSE IF p.k \in AckKinds \cup {"disconnect", "auth"} THEN (IF p.props = << >> THEN << >> ELSE p.props[1])
  ELSE p.props
BadValue(id) ==
  CASE id \in {1, 23, 25, 36, 37, 40, 41, 42} -> { MkProp(id, N(2), << >>, << >>) }
    [] id \in {33, 35, 39, 11} -> { MkProp(id, N(0), << >>, << >>) }
    [] OTHER -> {}
BadUtf8 == { << << 255, 2 >> >>, << << 192, 1 >>, << 128, 1 >> >>, << << 237, 1 >>, << 160, 1 >>, << 128, 1 >> >>,
             << << 97, 1 >>, << 226, 1 >>, << 130, 1 >> >> }

SemMutants(p) ==
  LET tag(name, S) == { << name, q >> : q \in S } IN
  (IF p.k \in HasPid /\ (p.k # "publish" \/ p.pid # << >>) THEN tag("pid-zero", { ZeroPid(p) }) ELSE {})
  \cup (IF p.k = "publish" THEN tag("qos-3", { [p EXCEPT !.qos = 3, !.pid = << N(1) >>] })
                                \cup tag("topic-wildcard", { [p EXCEPT !.topic = St(116, 2) \o St(c, 1)] : c \in {35, 43} })
                                \cup tag("topic-empty", { [p EXCEPT !.topic = << >>] })
                                \cup tag("topic-utf8", { [p EXCEPT !.topic = s] : s \in BadUtf8 })
        ELSE {})
  \cup (IF p.k = "connect"
        THEN tag("password-without-user", { [p EXCEPT !.user = << >>, !.pass = << St(112, 2) >>] })
             \cup tag("cid-utf8", { [p EXCEPT !.cid = s] : s \in BadUtf8 })
             \cup (IF p.user # << >> THEN tag("user-utf8", { [p EXCEPT !.user = << s >>] : s \in BadUtf8 }) ELSE {})
             \cup (IF p.will # << >> THEN tag("wtopic-utf8", { [p EXCEPT !.will = << [p.will[1] EXCEPT !.topic = s] >>] : s \in BadUtf8 }) ELSE {})
        ELSE {})
  \cup (IF p.k = "connack" THEN tag("rc-invalid", { [p EXCEPT !.rc = c] : c \in BadRc(p.k, p.v) }) ELSE {})
  \cup (IF p.k \in AckKinds \cup {"disconnect", "auth"} /\ (V5(p) \/ p.k \in AckKinds)
        THEN tag("rc-invalid", { [p EXCEPT !.rc = << c >>] : c \in BadRc(p.k, "v50") }) ELSE {})
  \cup (IF p.k \in {"suback", "unsuback"} /\ (V5(p) \/ p.k = "suback")
        THEN tag("rc-invalid", { [p EXCEPT !.codes = << c >> \o p.codes] : c \in BadRc(p.k, p.v) })
             \cup tag("codes-empty", { [p EXCEPT !.codes = << >>] })
        ELSE {})
  \cup (IF p.k = "subscribe"
        THEN tag("entries-empty", { [p EXCEPT !.entries = << >>] })
             \cup tag("sub-qos-3", { [p EXCEPT !.entries = << [p.entries[1] EXCEPT !.qos = 3] >>] })
             \cup tag("filter-utf8", { [p EXCEPT !.entries = << [p.entries[1] EXCEPT !.filter = s] >>] : s \in BadUtf8 })
             \cup (IF V5(p) THEN tag("sub-rh-3", { [p EXCEPT !.entries = << [p.entries[1] EXCEPT !.rh = 3] >>] })
                                 \cup tag("share-name", { [p EXCEPT !.entries = << [p.entries[1] EXCEPT !.filter = f] >>] :
                                        f \in { Share(<< >>, 103, 3), Share(<< 47 >>, 116, 1), Share(<< 43, 47 >>, 116, 1) } })
                   ELSE {})
        ELSE {})
  \cup (IF p.k = "unsubscribe"
        THEN tag("entries-empty", { [p EXCEPT !.filters = << >>] })
             \cup tag("filter-utf8", { [p EXCEPT !.filters = << s >>] : s \in BadUtf8 })
             \cup (IF V5(p) THEN tag("share-name", { [p EXCEPT !.filters = << f >>] :
                                        f \in { Share(<< >>, 103, 3), Share(<< 47 >>, 116, 1), Share(<< 35, 47 >>, 116, 1) } })
                   ELSE {})
        ELSE {})
  \cup UNION { tag("prop-forbidden@" \o loc,
                   { WithProps(p, loc, LAMBDA ps : ps \o << OneVal(id) >>) : id \in PropIds \ AllowedAt[loc] })
               \cup tag("prop-duplicate@" \o loc,
                   { WithProps(p, loc, LAMBDA ps : << OneVal(id) >> \o ps \o << OneVal(id) >>) :
                       id \in { i \in AllowedAt[loc] : ~Repeatable[loc][i] } })
               \cup tag("prop-value@" \o loc,
                   UNION { { WithProps(p, loc, LAMBDA ps : ps \o << q >>) : q \in BadValue(id) } : id \in AllowedAt[loc] })
               \cup tag("prop-utf8@" \o loc,
                   { WithProps(p, loc, LAMBDA ps : ps \o << MkProp(38, N(0), s, St(118, 1)) >>) : s \in BadUtf8 })
               : loc \in LocsOf(p) }
  \cup (IF p.k = "auth" THEN tag("auth-data-without-method", { [p EXCEPT !.rc = << 0 >>, !.props = << << OneVal(22) >> >>] })
                             \cup tag("auth-continue-without-method", { [p EXCEPT !.rc = << 24 >>, !.props = << << >> >>] })
        ELSE {})

(* byte-level edits of the seed's own encoding: no expectation, only the    *)
(* accept-side clauses are judged                                           *)
Replace(bs, off, n, new) == SubSeq(bs, 1, off) \o new \o SubSeq(bs, off + n + 1, Len(bs))
VbiParts == {"proplen", "wproplen"}
StrParts == {"cid", "wtopic", "wpayload", "user", "pass", "topic", "entry", "filter"}
ByteMutants(p) ==
  LET bs == FlatBody(p)
      n  == Len(bs)
      fl == FlagNibble(p)
      m(name, b) == Mut(p, fl, b, name, FALSE)
  IN
  { m("truncate", SubSeq(bs, 1, i)) : i \in 0..(n - 1) }
  \cup { m("trailing", bs \o << b >>) : b \in {0, 128, 255, 38} }
  \cup { m("flip", [bs EXCEPT ![i] = FlipBit(@, k)]) : i \in 1..n, k \in 0..7 }
  \cup { m("insert", SubSeq(bs, 1, i) \o << b >> \o SubSeq(bs, i + 1, n)) : i \in 0..n, b \in {0, 128, 255} }
  \cup { m("delete", SubSeq(bs, 1, i - 1) \o SubSeq(bs, i + 1, n)) : i \in 1..n }
  \cup UNION { IF PartOffset(p, name) < 0 THEN {}
               ELSE LET off == PartOffset(p, name)
                        v   == bs[off + 1]
                    IN  { m("pad-vbi-" \o name, Replace(bs, off, 1, << v + 128, 0 >>)),
                          m("pad-vbi-" \o name, Replace(bs, off, 1, << v + 128, 128, 0 >>)),
                          m("pad-vbi-" \o name, Replace(bs, off, 1, << v + 128, 128, 128, 0 >>)),
                          m("pad-vbi-" \o name, Replace(bs, off, 1, << v + 128, 128, 128, 128, 0 >>)),
                          m("len-plus-" \o name, Replace(bs, off, 1, << v + 1 >>)) }
                        \cup (IF v > 0 THEN { m("len-minus-" \o name, Replace(bs, off, 1, << v - 1 >>)) } ELSE {})
               : name \in VbiParts }
  \cup UNION { IF PartOffset(p, name) < 0 THEN {}
               ELSE LET off == PartOffset(p, name)
                        v   == bs[off + 2]
                    IN  { m("len-plus-" \o name, Replace(bs, off, 2, << 0, v + 1 >>)),
                          m("len-max-" \o name, Replace(bs, off, 2, << 255, 255 >>)),
                          m("len-zero-" \o name, Replace(bs, off, 2, << 0, 0 >>)) }
                        \cup (IF v > 0 THEN { m("len-minus-" \o name, Replace(bs, off, 2, << 0, v - 1 >>)) } ELSE {})
               : name \in StrParts }
  \cup UNION { LET ps  == PropsAt(p, loc)
                   base == PartOffset(p, IF loc = "will" THEN "wprops" ELSE "props")
               IN  UNION { IF ps[i].id # 11 \/ PNum(ps[i]) >= 128 THEN {}
                           ELSE LET off == base + PropsSize(SubSeq(ps, 1, i - 1)) + 1
                                    v   == bs[off + 1]
                                    pl  == PartOffset(p, IF loc = "will" THEN "wproplen" ELSE "proplen")
                                    \* the Property Length (one byte here) grows with the padding
                                    Grow(b, d) == [b EXCEPT ![pl + 1] = @ + d]
                                IN  IF bs[pl + 1] > 120 THEN {}
                                    ELSE { m("pad-vbi-subid", Grow(Replace(bs, off, 1, << v + 128, 0 >>), 1)),
                                           m("pad-vbi-subid", Grow(Replace(bs, off, 1, << v + 128, 128, 128, 0 >>), 3)) }
                           : i \in 1..Len(ps) }
               : loc \in LocsOf(p) \cap {"publish", "subscribe"} }
  \cup (IF p.k = "publish" THEN { m("flags", bs) } \cup { Mut(p, f, bs, "flags", FALSE) : f \in 0..15 } ELSE {})
  \cup (IF p.k = "connect"
        THEN LET off == PartOffset(p, "cflags") IN
             { m("connect-flags", Replace(bs, off, 1, << f >>)) : f \in {1, 24, 25, 32, 64, 255, bs[off + 1] + 1} }
             \cup { m("protocol", Replace(bs, PartOffset(p, "level"), 1, << l >>)) : l \in {0, 3, 4, 5, 6} }
        ELSE {})
  \cup (IF p.k = "connack"
        THEN { m("ack-flags", Replace(bs, 0, 1, << f >>)) : f \in {2, 3, 128, 255} } ELSE {})
  \cup (IF p.k = "subscribe" /\ PartOffset(p, "entry") >= 0
        THEN LET off == PartOffset(p, "entry") + PartLen(p, "entry") - 1 IN
             { m("sub-opts", Replace(bs, off, 1, << o >>)) : o \in {3, 4, 8, 48, 64, 128, 255} }
        ELSE {})

Mutants(p) ==
  { Mut(x[2], FlagNibble(x[2]) % 16, FlatBody(x[2]), x[1], ~ValidPacket(x[2])) : x \in SemMutants(p) }
  \cup ByteMutants(p)
  \cup { Mut(p, FlagNibble(p), FlatBody(p), "seed", FALSE) }

(* small valid packets of every kind used as seeds *)
(* ... one of them with a property section of 128 bytes (a two-byte Property Length) *)
SeedProps(loc) == { << >>, << OneVal(38) >>, AllAllowed(loc), << MkProp(38, N(0), St(107, 60), St(118, 63)) >> }
Seeds(g) ==
  LET d == Def(g.k, g.v, g.w)
      v5 == g.v = "v50"
  IN
  CASE g.k = "connect" ->
         { d, [d EXCEPT !.will = << DefWill >>, !.user = << St(117, 2) >>, !.pass = << St(112, 2) >>] }
         \cup (IF v5 THEN { [d EXCEPT !.props = AllAllowed("connect"),
                               !.will = << [DefWill EXCEPT !.props = AllAllowed("will")] >>] } ELSE {})
    [] g.k = "connack" -> {d} \cup (IF v5 THEN { [d EXCEPT !.props = ps] : ps \in SeedProps("connack") } ELSE {})
    [] g.k = "publish" ->
         { d, [d EXCEPT !.qos = 0, !.pid = << >>], [d EXCEPT !.qos = 2, !.payload = << >>] }
         \cup (IF v5 THEN { [d EXCEPT !.props = ps] : ps \in SeedProps("publish") }
                          \cup { [d EXCEPT !.topic = << >>, !.props = << OneVal(35) >>] } ELSE {})
    [] g.k \in AckKinds ->
         { d, [d EXCEPT !.rc = << 0 >>] }
         \cup (IF v5 THEN { [d EXCEPT !.rc = << 0 >>, !.props = << ps >>] : ps \in SeedProps(g.k) } ELSE {})
    [] g.k \in {"subscribe", "suback", "unsubscribe"} ->
         {d} \cup (IF v5 THEN { [d EXCEPT !.props = ps] : ps \in SeedProps(g.k) } ELSE {})
    [] g.k = "unsuback" -> {d} \cup (IF v5 THEN { [d EXCEPT !.props = ps] : ps \in SeedProps(g.k) } ELSE {})
    [] g.k = "disconnect" ->
         IF v5 THEN { d, [d EXCEPT !.rc = << 0 >>] } \cup { [d EXCEPT !.rc = << 4 >>, !.props = << ps >>] : ps \in SeedProps(g.k) }
         ELSE { d }
    [] g.k = "auth" ->
         { d, [d EXCEPT !.rc = << 0 >>, !.props = << << >> >>], [d EXCEPT !.rc = << 0 >>],
           [d EXCEPT !.rc = << 24 >>, !.props = << AllAllowed("auth") >>] }
    [] OTHER -> { Hdr(g.k, g.v, g.w) }
=============================================================================
