SPECIFICATION Spec
CONSTANT Mode = "c18"
CONSTANT Tier = "quick"
INVARIANT RefOK
ACTION_CONSTRAINT PrintItem
CHECK_DEADLOCK FALSE
