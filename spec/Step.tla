-------------------------------- MODULE Step --------------------------------
(***************************************************************************)
(* One public call of GenericConnection as a function                      *)
(*     Apply(state, call) -> [st, out, call-with-results]                  *)
(* and the step record both the model checker (MC_Endpoint) and the trace  *)
(* validator (Trace_Endpoint) hand to Props.                               *)
(***************************************************************************)
EXTENDS Props

Call(op) == [NoCall EXCEPT !.op = op]
NoShadow == [mode |-> "none", hf |-> FALSE, st |-> New("client", "v311", 16)]

(* configuration scope copied into a fresh object "with the same options" *)
FreshLike(s, ver) ==
  [New(s.role, ver, s.idw) EXCEPT !.offline = s.offline, !.needStore = s.offline,
        !.autoPub = s.autoPub, !.autoPing = s.autoPing, !.autoMap = s.autoMap, !.autoReplace = s.autoReplace,
        !.prsTimeout = s.prsTimeout, !.userMs = s.userMs]

(* one public call on a state: [st, out, call (with results filled in)] *)
Apply(s, c) ==
  CASE c.op = "send"   -> LET r == Send(s, c.pkt) IN [st |-> r.st, out |-> r.out, call |-> c]
    [] c.op = "recv"   -> LET r == IF c.flag THEN RecvComplete(s, c.pkt) ELSE RecvPartial(s)
                          IN  [st |-> r.st, out |-> r.out, call |-> c]
    [] c.op = "garbage" -> LET r == RecvFramingError(s) IN [st |-> r.st, out |-> r.out, call |-> c]
    [] c.op = "fire"   -> LET r == TimerFired(s, c.k) IN [st |-> r.st, out |-> r.out, call |-> c]
    [] c.op \in {"closed", "crash"} -> LET r == NotifyClosed(s) IN [st |-> r.st, out |-> r.out, call |-> c]
    [] c.op = "acquire" -> LET a == Acquire(s) IN [st |-> a.st, out |-> <<>>, call |-> [c EXCEPT !.ok = a.ok, !.id = a.id]]
    [] c.op = "register" -> LET a == Register(s, c.id) IN [st |-> a.st, out |-> <<>>, call |-> [c EXCEPT !.ok = a.ok]]
    [] c.op = "release" -> LET r == Release(s, c.id) IN [st |-> r.st, out |-> r.out, call |-> c]
    [] c.op = "erase"  -> LET r == EraseStoredPublish(s, c.id) IN [st |-> r.st, out |-> r.out, call |-> c]
    [] c.op = "set_interval" -> LET r == SetInterval(s, c.val) IN [st |-> r.st, out |-> r.out, call |-> c]
    [] c.op = "set_resp_timeout" -> [st |-> [s EXCEPT !.prsTimeout = c.val], out |-> <<>>, call |-> c]
    [] c.op = "opt"    -> [st |-> SetOpt(s, c.name, c.flag), out |-> <<>>, call |-> c]
    [] c.op = "new"    -> [st |-> New(c.role, c.ver, c.idw), out |-> <<>>, call |-> c]
    [] c.op = "restore" -> [st |-> RestorePackets(s, c.pkts), out |-> <<>>, call |-> c]
    [] c.op = "regulate" -> LET g == Regulate(s, c.pkt)
                            IN  [st |-> s, out |-> <<>>, call |-> [c EXCEPT !.ok = g.ok, !.pkts = IF g.ok THEN << g.pkt >> ELSE <<>>]]
    [] c.op = "restore_qos2" -> [st |-> RestoreQos2(s, SeqToSet(c.ids)), out |-> <<>>, call |-> c]
    [] OTHER -> [st |-> s, out |-> <<>>, call |-> c]

MkRec(a, shMode, aF) ==
  [call |-> a.call, out |-> a.out, obs |-> ObsOf(a.st), dig |-> DigOf(a.st), panic |-> FALSE,
   shadow |-> shMode, outF |-> aF.out, obsF |-> ObsOf(aF.st), panicF |-> FALSE]

=============================================================================
