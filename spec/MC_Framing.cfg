SPECIFICATION Spec
CONSTANTS
  MaxFrames = 2
  Firsts = {48, 192}
  Widths = {1, 2, 3, 4}
  BodyLens = {0, 1, 3}
  ErrFirst = {128}
  ErrLast = {128}
  Near = 1000000
  WithBody = TRUE
  Sample = 16
  Salt = 1
VIEW view
INVARIANT TypeOK
PROPERTY Refines
ACTION_CONSTRAINT PrintEdge
CHECK_DEADLOCK FALSE
