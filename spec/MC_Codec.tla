------------------------------ MODULE MC_Codec ------------------------------
(***************************************************************************)
(* Model-checking configurations of the wire-format reference Codec.tla.   *)
(*                                                                         *)
(*  Mode = "vec" : enumerate the abstract packet domain (C02, C03), check   *)
(*                 the reference for internal consistency on every packet   *)
(*                 (SizeOf = length of Enc, Remaining Length field = body   *)
(*                 length, domain packets satisfy ValidPacket) and print    *)
(*                 one JSON vector per packet for the harness.              *)
(*  Mode = "c18" : enumerate the whole property placement table             *)
(*                 (location x property x occurrences x boundary values).   *)
(*  Mode = "c04" : enumerate seeds and their mutants (semantic corruptions  *)
(*                 and byte-level edits; Tier "thorough": a second generic  *)
(*                 edit on top of every structural mutant).                 *)
(*  Tier (vec)   : "quick" = all pairs of fields over the full lattice,     *)
(*                 "thorough" = all pairs and all triples.                  *)
(*                                                                         *)
(* The state graph is a tree root -> group -> slice -> item so that TLC's   *)
(* workers share the enumeration; items are printed by an action            *)
(* constraint (one line per explored transition, as in MC_Allocator).       *)
(***************************************************************************)
EXTENDS Codec, TLC, Json

CONSTANTS Mode, Tier

VARIABLES stage, x
vars == << stage, x >>

Init == stage = "root" /\ x = [k |-> "root"]

(* ---- vec ---- *)
(* Codec.Dom(g, Tier), cut into slices for the workers: a slice fixes the   *)
(* first deviating field (in a fixed order of the field names) and its      *)
(* value; its items are that packet and every pair / triple with later      *)
(* fields, so each combination is produced once.                            *)
Trivial(g) == g.k \in {"pingreq", "pingresp"} \/ (g.k = "disconnect" /\ g.v = "v311")
FldSeq(g) == SetToSeq(DOMAIN Alt(g.k, g.v, g.w, "full"))
SliceStates(g) ==
  { [g |-> g, i |-> 0, a |-> 0] }
  \cup (IF Trivial(g) THEN {}
        ELSE LET F == Alt(g.k, g.v, g.w, "full")
                 fs == FldSeq(g)
             IN  UNION { { [g |-> g, i |-> i, a |-> a] : a \in F[fs[i]] } : i \in 1..Len(fs) })
SliceRaw(s) ==
  LET g == s.g
      d == Def(g.k, g.v, g.w)
  IN  IF g.k \in {"pingreq", "pingresp"} THEN { Hdr(g.k, g.v, g.w) }
      ELSE IF s.i = 0 THEN {d} \cup RlBoundary(g)
      ELSE
      LET F == Alt(g.k, g.v, g.w, "full")
          fs == FldSeq(g)
          n == Len(fs)
          base == [d EXCEPT ![fs[s.i]] = s.a]
          Pairs(D) == UNION { { [base EXCEPT ![fs[j]] = y] : y \in D[fs[j]] } : j \in (s.i + 1)..n }
          Triples(D) == UNION { UNION { { [base EXCEPT ![fs[j]] = y, ![fs[k]] = z] : y \in D[fs[j]], z \in D[fs[k]] }
                                        : k \in (j + 1)..n } : j \in (s.i + 1)..n }
      IN  {base}
          \cup (IF Tier = "quick" THEN Pairs(F) ELSE Pairs(F) \cup Triples(F))
Slice(s) == { q \in { Fix(a) : a \in SliceRaw(s) } : ValidPacket(q) }

Vector(q) == [p |-> q, enc |-> Enc(q), size |-> SizeOf(q)]

NextVec ==
  \/ /\ stage = "root"
     /\ \E g \in Groups : \E s \in SliceStates(g) : stage' = "slice" /\ x' = s
  \/ /\ stage = "slice"
     /\ \E q \in Slice(x) : stage' = "item" /\ x' = q

(* ---- c18 ---- *)
CellItem(c) == LET q == CellPacket(c.loc, CellProps(c))
               IN  [p |-> q, enc |-> Enc(q), size |-> SizeOf(q),
                    cell |-> [loc |-> c.loc, id |-> c.id, cnt |-> c.cnt], expect |-> CellExpect(c)]
NextC18 ==
  \/ /\ stage = "root"
     /\ \E loc \in Locs : stage' = "slice" /\ x' = [loc |-> loc]
  \/ /\ stage = "slice"
     /\ \E id \in PropIds : \E c \in CellsOf(x.loc, id) : stage' = "item" /\ x' = CellItem(c)

(* ---- c04 ---- *)
GenericEdits(m) ==
  LET bs == m.body
      n  == Len(bs)
      e(name, b) == [m EXCEPT !.body = b, !.op = m.op \o "+" \o name, !.reject = FALSE]
  IN  { e("truncate", SubSeq(bs, 1, i)) : i \in 0..(n - 1) }
      \cup { e("trailing", bs \o << b >>) : b \in {0, 255} }
      \cup { e("insert", SubSeq(bs, 1, i) \o << b >> \o SubSeq(bs, i + 1, n)) : i \in 0..n, b \in {0, 128, 255} }
      \cup { e("delete", SubSeq(bs, 1, i - 1) \o SubSeq(bs, i + 1, n)) : i \in 1..n }
(* besides the hand-picked seeds, every small packet that deviates from the *)
(* default in one field                                                     *)
SeedsFor(g) ==
  IF Trivial(g) THEN Seeds(g)
  ELSE Seeds(g) \cup { q \in { Fix(a) : a \in OneWise(Def(g.k, g.v, g.w), Alt(g.k, g.v, g.w, "med")) } :
                         ValidPacket(q) /\ SizeOf(q) <= 90 }
Structural(m) == m.op \notin {"truncate", "flip", "insert", "delete", "trailing", "seed", "flags"}
NextC04 ==
  \/ /\ stage = "root"
     /\ \E g \in Groups : \E s \in SeedsFor(g) : stage' = "slice" /\ x' = s
  \/ /\ stage = "slice"
     /\ \E m \in Mutants(x) : stage' = "item" /\ x' = m
  \/ /\ stage = "item" /\ Tier = "thorough" /\ Structural(x)
     /\ \E m \in GenericEdits(x) : stage' = "item2" /\ x' = m

Next == CASE Mode = "vec" -> NextVec [] Mode = "c18" -> NextC18 [] Mode = "c04" -> NextC04

Spec == Init /\ [][Next]_vars

(* ---- the reference is checked before it is used as an oracle ---- *)
RefOK ==
  CASE Mode = "vec" -> stage = "item" => RefConsistent(x) /\ ValidPacket(x)
    [] Mode = "c18" -> stage = "item" => RefConsistent(x.p) /\ (x.expect = ValidPacket(x.p))
    [] Mode = "c04" -> stage = "slice" => RefConsistent(x) /\ ValidPacket(x) /\ SizeOf(x) < 400

(* ---- one line per item ---- *)
PrintItem ==
  CASE Mode = "vec" -> (stage' = "item" => PrintT(<< "V", ToJson(Vector(x')) >>))
    [] Mode = "c18" -> (stage' = "item" => PrintT(<< "V", ToJson(x') >>))
    [] Mode = "c04" -> (stage' \in {"item", "item2"} => PrintT(<< "V", ToJson(x') >>))
=============================================================================
