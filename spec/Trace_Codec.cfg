SPECIFICATION Spec
POSTCONDITION AllVisited
CHECK_DEADLOCK FALSE
