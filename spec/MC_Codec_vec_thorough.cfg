SPECIFICATION Spec
CONSTANT Mode = "vec"
CONSTANT Tier = "thorough"
INVARIANT RefOK
ACTION_CONSTRAINT PrintItem
CHECK_DEADLOCK FALSE
