--------------------------- MODULE Trace_Endpoint ---------------------------
(***************************************************************************)
(* Judges recorded behaviours of the real GenericConnection (an NDJSON     *)
(* trie written by conn-harness: one node per distinct call prefix).       *)
(*                                                                         *)
(* Level A (the verdict): the ghost of Props is advanced from the LOGGED   *)
(* observables and every predicate of the selected properties is evaluated *)
(* at every node; false clauses are printed as VIOL lines; the walk never  *)
(* stops (the ghost is a function of the log, so it stays synchronised).   *)
(*                                                                         *)
(* Level B (drift report, never a verdict): Endpoint.tla is run in         *)
(* lock-step on the logged calls and its predicted events, getters and     *)
(* state digest are compared with the log; the first disagreement on a     *)
(* path is printed as a DRIFT line naming the differing fields.            *)
(***************************************************************************)
EXTENDS Step, Json, IOUtils

CONSTANTS CheckProps, LevelB

Rec == ndJsonDeserialize(IOEnv.TRIE)
Node(i) == Rec[i + 1]
Kids(i) == SeqToSet(Node(i).kids)

VARIABLES n,      \* current trie node
          g,      \* ghost after node n (Props)
          st,     \* Endpoint.tla state after node n (lock-step, Level B)
          drift   \* a disagreement was already reported on this path

vars == << n, g, st, drift >>

DigFields == {"status", "ver", "isClient", "used", "suback", "unsuback", "puback", "pubrec", "pubcomp", "needStore",
              "storeIds", "offline", "autoPub", "autoPing", "autoMap", "autoReplace", "taSendMax", "taSend",
              "taRecvMax", "taRecv", "sendMax", "recvMax", "sendCount", "pubRecv", "mpsSend", "mpsRecv", "userMs",
              "kaMs", "skaMs", "prqTimeout", "prsTimeout", "qos2", "tSend", "tRecv", "tResp", "partial"}

NoErrNames(out) == [i \in DOMAIN out |-> IF out[i].ev = "error" THEN [out[i] EXCEPT !.err = ""] ELSE out[i]]

(* names of the things on which specification and log disagree at record r *)
Disagreement(a, r) ==
  LET d == DigOf(a.st)  o == ObsOf(a.st) IN
  \* which error is named is not compared; runs of `released` events come out of a hash set: compared as sets
  (IF NonRel(NoErrNames(a.out)) # NonRel(NoErrNames(r.out)) \/ RelSet(a.out) # RelSet(r.out) \/ Len(RelSeq(a.out)) # Len(RelSeq(r.out))
   THEN {"out"} ELSE {})
  \cup (IF a.call.ok # r.call.ok \/ a.call.id # r.call.id \/ (r.call.op = "regulate" /\ a.call.pkts # r.call.pkts) THEN {"ret"} ELSE {})
  \cup (IF o.vacancy # r.obs.vacancy THEN {"obs.vacancy"} ELSE {})
  \cup (IF o.stored # r.obs.stored THEN {"obs.stored"} ELSE {})
  \cup (IF o.qos2 # r.obs.qos2 THEN {"obs.qos2"} ELSE {})
  \cup (IF o.ver # r.obs.ver THEN {"obs.ver"} ELSE {})
  \cup { f \in DigFields : d[f] # r.dig[f] }

Init == n = 0 /\ g = G0 /\ st = New("client", "v311", 16) /\ drift = FALSE

Next ==
  \E k \in Kids(n) :
     LET r == Node(k)
         prev == Node(n)
         g2 == GhostStep(g, prev, r)
         v == Viol(CheckProps, g, prev, r, g2)
         lb == LevelB /\ ~drift /\ ~r.panic /\ r.call.op # "probe"
         a == IF lb THEN Apply(st, r.call) ELSE [st |-> st, out |-> r.out, call |-> r.call]
         dis == IF lb THEN Disagreement(a, r) ELSE {}
     IN  /\ n' = k
         /\ g' = Resync(g2, r, v)
         /\ st' = a.st
         /\ drift' = (drift \/ dis # {} \/ r.panic)
         \* one string per line: TLC wraps long tuples/sets over several lines, strings never
         /\ IF v = {} THEN TRUE ELSE PrintT(<< "VIOL", ToJson([n |-> k, c |-> v]) >>)
         /\ IF dis = {} THEN TRUE
            ELSE PrintT(<< "DRIFT", ToJson([n |-> k, c |-> dis,
                     exp |-> [i \in DOMAIN a.out |-> << a.out[i].ev, a.out[i].pkt.kind, a.out[i].err, a.out[i].id, a.out[i].k, a.out[i].pkt.topic, a.out[i].pkt.alias, a.out[i].pkt.size, a.out[i].pkt.pid, a.out[i].ms >>]]) >>)

Spec == Init /\ [][Next]_vars

AllVisited == TLCGet("stats").distinct = Len(Rec) \/ PrintT(<< "UNVISITED", TLCGet("stats").distinct, Len(Rec) >>)
=============================================================================
