---------------------------- MODULE Trace_Framing ----------------------------
(***************************************************************************)
(* Judges recorded behaviours of the real PacketBuilder::feed (target pb)  *)
(* and the real Connection::recv (targets srv.., cli..): an NDJSON trie     *)
(* written by harness `framing` - against property C09.                    *)
(*                                                                         *)
(* A path of the trie is root -> "new" node (one stream for one target:    *)
(* its atomic framing as [kind, first byte, length bytes, body length,     *)
(* body digest] per frame, the end offset of every frame, and the event    *)
(* list of the REFERENCE run: the same stream fed whole frame by whole     *)
(* frame to a second real object) -> one node per call of feed/recv on     *)
(* (receive buffer, cursor): buffer length, cursor before/after, the       *)
(* first <= 5 bytes at the cursor, result kind and completed frame (pb),   *)
(* events (connection), hook state after the call.                         *)
(*                                                                         *)
(* Level-A clauses (the only thing that can raise a violation):            *)
(*  panic                   the library panicked                           *)
(*  one-frame-per-call      cursor moved backwards, past the buffer, or    *)
(*                          past the end of the frame in progress          *)
(*  no-loss-no-dup          pb: Complete exactly when the last byte of a   *)
(*                          valid frame has been consumed, and the frame   *)
(*                          returned is that frame (first byte, body       *)
(*                          length, body); connection: no packet notified  *)
(*                          without a completed frame; at the end of the   *)
(*                          stream every byte has been consumed            *)
(*  five-byte-length-error  pb: Error exactly at the 4th length byte with  *)
(*                          continuation bit; connection: an error event   *)
(*                          there; (resumption at the next byte is the     *)
(*                          no-loss-no-dup clause on the following frame)  *)
(*  events-equal-unchunked  the events of the chunked run, concatenated,   *)
(*                          are a prefix of / at the end equal to those    *)
(*                          of the frame-by-frame run                      *)
(*  progress                a call sequence on a non-empty buffer stopped  *)
(*                          consuming (the harness gave up)                *)
(*  lockstep-result         the ghost Framing!FeedV, run on the logged     *)
(*                          view (first bytes at the cursor, bytes         *)
(*                          available), predicts fewer consumed bytes, or  *)
(*                          the same number with another result/frame.     *)
(*                          (Consuming LESS than the ghost with result     *)
(*                          Incomplete is legal for C09 - it is DRIFT.)    *)
(* DRIFT (printed, never a violation): hook state differs from the ghost   *)
(* state; fewer bytes consumed than the ghost.                             *)
(*                                                                         *)
(* Never stops at a violation: prints VIOL lines, re-synchronises the      *)
(* ghost and the counters from the stream description, continues.          *)
(***************************************************************************)
EXTENDS Framing, TLC, Json, IOUtils, SequencesExt, FiniteSets

Rec == ndJsonDeserialize(IOEnv.TRIE)
Node(i) == Rec[i + 1]
Kids(i) == ToSet(Node(i).kids)

VARIABLES n,     \* current trie node id
          cs,    \* node id of the "new" node of this path (the stream)
          off,   \* stream offset consumed so far
          fi,    \* frames passed so far (Complete / Error points reached)
          g,     \* ghost: Framing state
          ne     \* events of the reference run matched so far

vars == << n, cs, off, fi, g, ne >>

NF(c)      == Len(Node(c).frames)
Kind(c, k) == Node(c).frames[k][1]
Fh(c, k)   == Node(c).frames[k][2]
Lb(c, k)   == Node(c).frames[k][3]
Bn(c, k)   == Node(c).frames[k][4]
Bd(c, k)   == Node(c).frames[k][5]
End(c, k)  == Node(c).ends[k]
Total(c)   == IF NF(c) = 0 THEN 0 ELSE End(c, NF(c))

Passed(c, o) == Cardinality({ k \in 1..NF(c) : End(c, k) <= o /\ Kind(c, k) # "tail" })
AtBoundary(c, o) == o = 0 \/ \E k \in 1..NF(c) : End(c, k) = o /\ Kind(c, k) # "tail"

(* the stream description must be self-consistent (else the log is broken: a tool error) *)
DescOK(r) ==
  /\ Len(r.ends) = Len(r.frames)
  /\ \A k \in 1..Len(r.frames) :
        r.ends[k] - (IF k = 1 THEN 0 ELSE r.ends[k - 1]) = 1 + Len(r.frames[k][3]) + r.frames[k][4]
  /\ \A k \in 1..Len(r.frames) : r.frames[k][1] = "err" => (Len(r.frames[k][3]) = 4 /\ r.frames[k][4] = 0)
  /\ Len(r.refcum) <= Len(r.frames)

Clamp(x, lo, hi) == IF x < lo THEN lo ELSE IF x > hi THEN hi ELSE x

(* everything computed at one call node r, from the state before the call *)
Judge(r) ==
  LET c      == cs
      pb     == r.tg = "pb"
      adv    == r.pos1 - r.pos0
      avail  == Clamp(r.blen - r.pos0, 0, r.blen)
      off2   == off + adv
      k      == fi + 1
      inS    == k <= NF(c)
      E      == IF inS THEN End(c, k) ELSE off
      over   == adv < 0 \/ r.pos1 > r.blen \/ off2 > E
      comp   == inS /\ off2 = E /\ adv > 0 /\ Kind(c, k) # "tail"
      compOk == comp /\ Kind(c, k) = "ok"
      compEr == comp /\ Kind(c, k) = "err"
      refall == Node(c).refall
      evFits == ne + Len(r.ev) <= Len(refall)
      evOK   == /\ evFits
                /\ SubSeq(refall, ne + 1, ne + Len(r.ev)) = r.ev
                /\ (r.last => ne + Len(r.ev) = Len(refall))
      v      == FeedV(g, r.hd, avail)
      expC   == v.hused + v.bused
      hdOK   == Len(r.hd) = Min2(5, avail)
      sameFr == r.res # "complete" \/ (Len(r.fr) = 3 /\ r.fr[1] = v.res.fh /\ r.fr[2] = v.res.n)
      lockOK == adv = expC /\ (~pb \/ (r.res = v.res.kind /\ sameFr))
      lockV  == hdOK /\ (adv > expC \/ (adv = expC /\ pb /\ (r.res # v.res.kind \/ ~sameFr)))
      hookG  == << v.state.phase, Len(v.state.hdr), v.state.remaining, v.state.got >>
      fi2    == IF over THEN Passed(c, off2) ELSE IF comp THEN fi + 1 ELSE fi
      clauses ==
        IF r.panic THEN {"panic"}
        ELSE (IF over THEN {"one-frame-per-call"} ELSE {})
          \cup (IF pb /\ ( (r.res = "complete") # compOk
                           \/ (r.res = "complete" /\ compOk /\ r.fr # << Fh(c, k), Bn(c, k), Bd(c, k) >>) )
                THEN {"no-loss-no-dup"} ELSE {})
          \cup (IF ~pb /\ r.npkt > (IF compOk THEN 1 ELSE 0) THEN {"no-loss-no-dup"} ELSE {})
          \cup (IF r.last /\ ~r.stall /\ off2 # Total(c) THEN {"no-loss-no-dup"} ELSE {})
          \cup (IF pb /\ ((r.res = "error") # compEr) THEN {"five-byte-length-error"} ELSE {})
          \cup (IF ~pb /\ compEr /\ r.nerr = 0 THEN {"five-byte-length-error"} ELSE {})
          \cup (IF ~Node(c).refpanic /\ ~evOK THEN {"events-equal-unchunked"} ELSE {})
          \cup (IF r.stall THEN {"progress"} ELSE {})
          \cup (IF lockV THEN {"lockstep-result"} ELSE {})
  IN  [ clauses |-> clauses,
        off2 |-> off2,
        fi2  |-> fi2,
        g2   |-> IF r.panic THEN g
                 ELSE IF lockOK /\ hdOK THEN v.state
                 ELSE IF AtBoundary(c, off2) THEN InitState
                 ELSE FeedV(g, r.hd, Clamp(adv, 0, avail)).state,
        ne2  |-> IF r.panic \/ Node(c).refpanic THEN ne
                 ELSE IF evFits /\ SubSeq(refall, ne + 1, ne + Len(r.ev)) = r.ev THEN ne + Len(r.ev)
                 ELSE IF fi2 >= 1 /\ fi2 <= Len(Node(c).refcum) THEN Node(c).refcum[fi2] ELSE ne,
        hdOK |-> hdOK,
        driftLess |-> ~r.panic /\ hdOK /\ adv < expC,
        driftHook |-> ~r.panic /\ hdOK /\ lockOK /\ r.hook # hookG,
        expC |-> expC, adv |-> adv, hookG |-> hookG ]

Drift(k, field, exp, got) ==      \* a single string is never wrapped
  "DRIFT " \o ToString(k) \o " " \o field \o " expected=" \o ToString(exp) \o " got=" \o ToString(got)

Init == n = 0 /\ cs = 0 /\ off = 0 /\ fi = 0 /\ g = InitState /\ ne = 0

Next ==
  \E k \in Kids(n) :
     LET r == Node(k) IN
     /\ n' = k
     /\ IF r.op = "new"
        THEN /\ cs' = k /\ off' = 0 /\ fi' = 0 /\ g' = InitState /\ ne' = 0
             /\ (DescOK(r) \/ PrintT(<< "BADLOG", k, "inconsistent stream description" >>))
             /\ (~r.refpanic \/ PrintT(<< "VIOL", k, {"panic"} >>))
        ELSE LET j == Judge(r) IN
             /\ cs' = cs
             /\ off' = j.off2 /\ fi' = j.fi2 /\ g' = j.g2 /\ ne' = j.ne2
             /\ (j.hdOK \/ r.panic \/ PrintT(<< "BADLOG", k, "hd does not hold min(5, avail) bytes" >>))
             \* one short line per clause: TLC wraps values wider than 80 columns
             /\ \A cl \in j.clauses : PrintT(<< "VIOL", k, {cl} >>)
             /\ (~j.driftLess \/ PrintT(Drift(k, "consumed", j.expC, j.adv)))
             /\ (~j.driftHook \/ PrintT(Drift(k, "hook", j.hookG, r.hook)))

Spec == Init /\ [][Next]_vars

(* every node must have been visited *)
AllVisited == TLCGet("stats").distinct = Len(Rec) \/ PrintT(<< "UNVISITED", TLCGet("stats").distinct, Len(Rec) >>)
=============================================================================
