----------------------------- MODULE Trace_Pair -----------------------------
(***************************************************************************)
(* Judges recorded behaviours of TWO real objects (client and server       *)
(* connection exchanging real bytes; NDJSON trie written by conn-harness   *)
(* --pair-edges / --drive-pair, every node carries `who`).  The pair ghost *)
(* (accepted messages, deliveries, losses) and the two endpoint ghosts are *)
(* rebuilt from the logged observables; Pair!ViolC01 and, per endpoint,    *)
(* the connection-level predicates of Props are evaluated at every node.   *)
(***************************************************************************)
EXTENDS Pair, Json, IOUtils

CONSTANTS EndpointProps

Rec == ndJsonDeserialize(IOEnv.TRIE)
Node(i) == Rec[i + 1]
Kids(i) == SeqToSet(Node(i).kids)

VARIABLES n, gc, gs, rc, rs, pg
vars == << n, gc, gs, rc, rs, pg >>

Init == n = 0 /\ gc = G0 /\ gs = G0 /\ rc = Node(0) /\ rs = Node(0) /\ pg = PG0

VacExpected(g) == IF g.ver = "v50" /\ g.peerRM > 0 THEN g.peerRM ELSE -1

Next ==
  \E k \in Kids(n) :
     LET r == Node(k)
         w == r.who
         g == IF w = "c" THEN gc ELSE gs
         prev == IF w = "c" THEN rc ELSE rs
         g2 == GhostStep(g, prev, r)
         pg2 == PairStep(pg, w, r, MapGet(g.rx, r.call.pkt.alias))
         oc == IF w = "c" THEN r.obs ELSE rc.obs
         os == IF w = "s" THEN r.obs ELSE rs.obs
         dc == IF w = "c" THEN r.dig ELSE rc.dig
         ds == IF w = "s" THEN r.dig ELSE rs.dig
         gc2 == IF w = "c" THEN g2 ELSE gc
         gs2 == IF w = "s" THEN g2 ELSE gs
         vacOK == oc.vacancy = VacExpected(gc2) /\ os.vacancy = VacExpected(gs2)
         v == ViolC01(pg, w, r, pg2, r.quiet, oc, os, dc, ds, vacOK) \cup Viol(EndpointProps, g, prev, r, g2)
         g3 == Resync(g2, r, v)
     IN  /\ n' = k
         /\ gc' = (IF w = "c" THEN g3 ELSE gc) /\ gs' = (IF w = "s" THEN g3 ELSE gs)
         /\ rc' = (IF w = "c" THEN r ELSE rc) /\ rs' = (IF w = "s" THEN r ELSE rs)
         /\ pg' = pg2
         /\ IF v = {} THEN TRUE ELSE PrintT(<< "VIOL", ToJson([n |-> k, c |-> v]) >>)

Spec == Init /\ [][Next]_vars

AllVisited == TLCGet("stats").distinct = Len(Rec) \/ PrintT(<< "UNVISITED", TLCGet("stats").distinct, Len(Rec) >>)
=============================================================================
