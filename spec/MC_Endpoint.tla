---------------------------- MODULE MC_Endpoint ----------------------------
(***************************************************************************)
(* One GenericConnection driven by its environment (application + peer +   *)
(* timers + transport), as a transition system over Endpoint.tla:          *)
(*   - every transition is ONE public call (Apply);                        *)
(*   - the environment's choices are guarded by the environment contract   *)
(*     of the properties (ids from acquire, timers fired only when armed,  *)
(*     close reported after a close request), evaluated on the GHOST, i.e. *)
(*     on what an application can know from the events it was handed;      *)
(*   - Props' predicates are checked on every transition (action property) *)
(*   - one JSON line per explored transition is printed for replay on the  *)
(*     real code (history of calls = the schedule).                        *)
(* The alphabet is selected by constants so that several small model       *)
(* configurations (MC_*.cfg) each explore one slice exhaustively.          *)
(***************************************************************************)
EXTENDS Step, Json

CONSTANTS
  Roles, Vers, Idws,       \* initial objects
  CheckProps,              \* property ids whose predicates are checked
  OptSets,                 \* set of sets of option names switched on before the first connection
  RespTimeouts,            \* values for set_pingresp_recv_timeout before the first connection (0 = not called)
  MaxConns,                \* number of connections (CONNECTs)
  MaxHeld, MaxUsed,        \* bounds on identifiers acquired by the application
  AppKinds,                \* packet kinds the application sends on its own (besides the handshake)
  PeerKinds,               \* packet kinds the peer delivers (besides the handshake)
  QosSet, Topics, Aliases, \* PUBLISH alphabet (alias 0 = none); topic "" = alias only
  InPids,                  \* identifiers of inbound PUBLISH packets
  ExtraPids,               \* identifiers used for unmatched acknowledgements / probes
  Rcs,                     \* reason codes of acknowledgements (0, 128)
  Cleans, KAs, ConnRMs, ConnTAMs, ConnMPSs, ConnSEIs,         \* CONNECT alphabets (99999 = absent)
  SPs, ConnackRcs, AckRMs, AckTAMs, AckMPSs, AckSEIs, SKAs,   \* CONNACK alphabets
  RogueHandshake,          \* the peer also sends CONNECT / CONNACK where none is expected
  PartialFrames,           \* the transport may deliver only the first bytes of a frame before it is lost
  Intervals,               \* values for set_pingreq_send_interval (-1 = None); {} = never called
  Fire, Close, Erase, IdOps, Crash, Garbage, BadFrames, SendWhileDisc, PeerWhileDisc,
  LateFrames,         \* frames already in flight still arrive after the connection asked for the close
  CrossVersion,       \* the application also hands in packets of the OTHER protocol version (must be refused)
  Restore,            \* a fresh object is given an export first - also malformed ones (duplicate ids, QoS 0 entries)
  Regulate_,          \* the application asks for the store form of v5.0 PUBLISH packets (regulate_for_store, a pure query)
  OptFlips,           \* options the application may switch on AND off at any time (not only before the first connection)
  FreeIdSends,        \* the application also hands in QoS>0 PUBLISH packets whose identifier it never acquired (must be refused, nothing released)
  LateSends,          \* the application keeps calling send after the connection asked for the close (before notify_closed)
  Msgs                \* payload tags of PUBLISH packets ("" = empty payload, "m4xx" = 4 bytes, any other tag 2 bytes)

VARIABLES st,    \* Endpoint state of the object under test
          sh,    \* shadow object [mode, st]: fresh / fixed-version / restored copy (C10, C17, C16)
          g,     \* ghost (Props)
          rec,   \* last step record                               (hidden by VIEW)
          hist   \* the calls that led here = the replay schedule  (hidden by VIEW)

vars == << st, sh, g, rec, hist >>
view == << st, sh, g >>

(* TLC configuration files cannot write negative numbers: 99999 stands for "absent" (-1) *)
V(x) == IF x = 99999 THEN -1 ELSE x

(* ------------------------------------------------------------------ choices *)
ConnectPkts(ver) ==
  { Sized([Pk("connect", ver) EXCEPT !.clean = cl, !.ka = ka,
             !.rm = IF ver = "v50" THEN V(rm) ELSE -1, !.tam = IF ver = "v50" THEN V(tam) ELSE -1,
             !.mps = IF ver = "v50" THEN V(mps) ELSE -1, !.sei = IF ver = "v50" THEN V(sei) ELSE -1], 16)
    : cl \in Cleans, ka \in KAs, rm \in ConnRMs, tam \in ConnTAMs, mps \in ConnMPSs, sei \in ConnSEIs }

ConnackPkts(ver) ==
  { Sized([Pk("connack", ver) EXCEPT !.sp = sp /\ rc = 0, !.rc = IF ver = "v311" /\ rc # 0 THEN 5 ELSE rc,   \* v3.1.1 return codes are 0..5
             !.rm = IF ver = "v50" /\ rc = 0 THEN V(rm) ELSE -1, !.tam = IF ver = "v50" /\ rc = 0 THEN V(tam) ELSE -1,
             !.mps = IF ver = "v50" /\ rc = 0 THEN V(mps) ELSE -1, !.sei = IF ver = "v50" /\ rc = 0 THEN V(sei) ELSE -1,
             !.ska = IF ver = "v50" /\ rc = 0 THEN V(ska) ELSE -1], 16)
    : sp \in SPs, rc \in ConnackRcs, rm \in AckRMs, tam \in AckTAMs, mps \in AckMPSs, sei \in AckSEIs, ska \in SKAs }

PublishPkts(ver, pids, idw) ==
  { Sized([Pk("publish", ver) EXCEPT !.qos = q, !.pid = IF q = 0 THEN 0 ELSE pid, !.topic = t,
             !.alias = IF ver = "v50" THEN a ELSE 0, !.msg = m], idw)
    : q \in QosSet, pid \in pids, t \in Topics, a \in Aliases, m \in Msgs }

WellFormedPublish(p) == (p.topic # "" \/ p.alias # 0) /\ (p.qos > 0 => p.pid # 0)

Ver(s) == IF s.ver = "undet" THEN "v311" ELSE s.ver      \* version of packets exchanged with this object

AppSendsV(s, gh, v) ==
  (IF "publish" \in AppKinds
   THEN { p \in PublishPkts(v, gh.held \cup {0}, s.idw) : WellFormedPublish(p) /\ (p.qos = 0 \/ p.pid \in gh.held) }
        \cup (IF FreeIdSends
              THEN { p \in PublishPkts(v, ExtraPids \ (gh.used \cup {0}), s.idw) : WellFormedPublish(p) /\ p.qos > 0 /\ p.alias = 0 }
              ELSE {})
   ELSE {})
  \cup (IF "subscribe" \in AppKinds THEN { Sized([Pk("subscribe", v) EXCEPT !.pid = pid], s.idw) : pid \in gh.held } ELSE {})
  \cup (IF "unsubscribe" \in AppKinds THEN { Sized([Pk("unsubscribe", v) EXCEPT !.pid = pid], s.idw) : pid \in gh.held } ELSE {})
  \cup (IF "pubrel" \in AppKinds
        THEN { AckPkt("pubrel", v, e.pid, 0, s.idw) : e \in { x \in gh.await : x.kind = "pubrel" } } ELSE {})
  \cup UNION { { AckPkt(k, v, pid, rc, s.idw) : pid \in gh.inUn \cup (IF k = "pubcomp" THEN InPids ELSE IF k = "pubrec" THEN gh.handled ELSE {}),
                                                  rc \in (IF k \in {"puback", "pubrec"} /\ v = "v50" THEN Rcs
                                                         ELSE IF k = "pubcomp" /\ v = "v50" /\ Rcs # {0} THEN {0, 146} ELSE {0}) }
               : k \in AppKinds \cap {"puback", "pubrec", "pubcomp"} }
  \cup UNION { { AckPkt(k, v, pid, 0, s.idw) : pid \in InPids } : k \in AppKinds \cap {"suback", "unsuback"} }
  \cup { Sized(Pk(k, v), s.idw) : k \in AppKinds \cap {"pingreq", "pingresp", "disconnect"} }
  \cup (IF "auth" \in AppKinds /\ v = "v50" THEN { Sized(Pk("auth", v), s.idw) } ELSE {})

AppSends(s, gh) ==
  AppSendsV(s, gh, Ver(s)) \cup (IF CrossVersion THEN AppSendsV(s, gh, IF Ver(s) = "v311" THEN "v50" ELSE "v311") ELSE {})

PeerFrames(s, gh) ==
  LET v == Ver(s)
      ackPids == { e.pid : e \in gh.await } \cup ExtraPids
  IN
  \* the peer may well send identifier 0 with QoS>0 (InPids may contain 0): only the topic/alias shape is kept sane
  (IF "publish" \in PeerKinds THEN { p \in PublishPkts(v, InPids, s.idw) : p.topic # "" \/ p.alias # 0 } ELSE {})
  \cup UNION { { AckPkt(k, v, pid, rc, s.idw) : pid \in ackPids, rc \in (IF k = "pubrec" /\ v = "v50" THEN Rcs ELSE {0}) }
               : k \in PeerKinds \cap {"puback", "pubrec", "pubcomp"} }
  \cup UNION { { AckPkt(k, v, pid, 0, s.idw) : pid \in gh.sub \cup gh.unsub \cup ExtraPids } : k \in PeerKinds \cap {"suback", "unsuback"} }
  \cup (IF "pubrel" \in PeerKinds THEN { AckPkt("pubrel", v, pid, 0, s.idw) : pid \in InPids } ELSE {})
  \cup UNION { { Sized([Pk(k, v) EXCEPT !.pid = pid], s.idw) : pid \in InPids } : k \in PeerKinds \cap {"subscribe", "unsubscribe"} }
  \cup { Sized(Pk(k, v), s.idw) : k \in PeerKinds \cap {"pingreq", "pingresp", "disconnect"} }
  \cup (IF "auth" \in PeerKinds THEN { Sized(Pk("auth", "v50"), s.idw) } ELSE {})
  \cup { [Sized(Pk(k, v), s.idw) EXCEPT !.bad = "MalformedPacket"] : k \in BadFrames }
  \cup (IF RogueHandshake /\ gh.conn # "disc"
        THEN { Sized([Pk("connect", v) EXCEPT !.clean = TRUE], 16) } ELSE {})
  \cup (IF RogueHandshake /\ gh.conn = "connected"
        THEN { Sized(Pk("connack", v), 16), Sized([Pk("connack", v) EXCEPT !.sp = FALSE, !.rm = IF v = "v50" THEN 1 ELSE -1], 16),
               \* ... one that claims a resumed session, and one that REFUSES (the content of the second CONNACK must not matter)
               Sized([Pk("connack", v) EXCEPT !.sp = TRUE], 16), Sized([Pk("connack", v) EXCEPT !.rc = IF v = "v50" THEN 135 ELSE 5], 16) }
        ELSE {})

CanBeClient(s) == s.role \in {"client", "any"}
CanBeServer(s) == s.role \in {"server", "any"}

EnvChoices(s, gh) ==
  LET quiet == gh.closeReq \/ s.partial   \* after a close request (or a cut frame) only the close is reported
      disc == gh.conn = "disc" /\ ~gh.tr
  IN
  (* handshake *)
  (IF ~quiet /\ disc /\ CanBeClient(s) /\ s.ver # "undet" /\ gh.nconn < MaxConns
   THEN { [Call("send") EXCEPT !.pkt = p] : p \in ConnectPkts(s.ver) } ELSE {})
  \cup (IF ~quiet /\ disc /\ CanBeServer(s) /\ gh.nconn < MaxConns
        THEN { [Call("recv") EXCEPT !.pkt = [p EXCEPT !.size = SizeOf(p, s.idw)], !.flag = TRUE]
               : p \in UNION { ConnectPkts(v) : v \in (IF s.ver = "undet" THEN {"v311", "v50"} ELSE {s.ver}) } } ELSE {})
  \cup (IF ~quiet /\ gh.conn = "connecting" /\ gh.client
        THEN { [Call("recv") EXCEPT !.pkt = p, !.flag = TRUE] : p \in ConnackPkts(s.ver) } ELSE {})
  \cup (IF (~quiet /\ gh.conn = "connecting" /\ ~gh.client) \/ (LateSends /\ gh.closeReq /\ gh.tr /\ ~gh.client /\ s.ver # "undet")
        THEN { [Call("send") EXCEPT !.pkt = p] : p \in ConnackPkts(s.ver) } ELSE {})
  (* application traffic *)
  \cup (IF (~quiet /\ (gh.conn = "connected" \/ SendWhileDisc)) \/ (LateSends /\ gh.closeReq /\ gh.tr /\ ~s.partial)
        THEN { [Call("send") EXCEPT !.pkt = p] : p \in AppSends(s, gh) } ELSE {})
  (* peer traffic *)
  \cup (IF (~quiet /\ ((gh.conn = "connected" /\ gh.tr) \/ PeerWhileDisc)) \/ (LateFrames /\ gh.closeReq /\ gh.tr /\ ~s.partial)
        THEN { [Call("recv") EXCEPT !.pkt = p, !.flag = TRUE] : p \in PeerFrames(s, gh) } ELSE {})
  \cup (IF ~quiet /\ Garbage /\ gh.tr THEN { Call("garbage") } ELSE {})
  \* the transport delivers only the first bytes of a frame and is then lost - in ANY connection state
  \* (also before the first CONNECT of a server, and after a DISCONNECT was sent)
  \cup (IF ~s.partial /\ PartialFrames /\ (gh.tr \/ CanBeServer(s))
        THEN { [Call("recv") EXCEPT !.pkt = IF gh.conn = "disc" /\ ~gh.tr
                                             THEN Sized([Pk("connect", Ver(s)) EXCEPT !.clean = TRUE], 16)
                                             ELSE Sized([Pk("publish", Ver(s)) EXCEPT !.topic = "t1", !.msg = "m1"], s.idw),
                                    !.flag = FALSE] } ELSE {})
  (* timers, transport *)
  \cup (IF Fire /\ s.ver # "undet" THEN { [Call("fire") EXCEPT !.k = k] : k \in gh.armed } ELSE {})
  \cup (IF gh.tr /\ (Close \/ quiet) THEN { Call("closed") } ELSE {})
  \* the process dies: identifiers acquired but not yet used die with it, so crash points are taken where none is held
  \* ... and none where a QoS 2 exchange waits for the APPLICATION to send its PUBREL: that duty is application
  \* state, not part of the export (DESIGN.md, C16 reading)
  \* ... and only in persistent sessions (the property: "before reconnecting with the session present")
  \cup (IF Crash /\ gh.tr /\ gh.nconn >= 1 /\ gh.held = {} /\ ~(\E e \in gh.await : e.kind = "pubrel") /\ gh.persistent
        THEN { [Call("crash") EXCEPT !.flag = hf] : hf \in BOOLEAN }   \* flag: handled-id set restored before the packets
        ELSE {})
  (* an export handed to a fresh object before its first connection: well-formed ones and the malformed ones of C16's
     quantifier (the same identifier twice - also under two kinds -, QoS 0 entries) *)
  \cup (IF Restore /\ ~quiet /\ disc /\ gh.nconn = 0 /\ s.store = <<>> /\ gh.used = {} /\ s.ver # "undet"
        THEN LET P(q, pid) == Sized([Pk("publish", s.ver) EXCEPT !.qos = q, !.pid = pid, !.topic = "t1", !.msg = "m1", !.dup = TRUE], s.idw)
                 L(pid) == AckPkt("pubrel", s.ver, pid, 0, s.idw)
             IN  { [Call("restore") EXCEPT !.pkts = l] :
                     l \in { << P(1, 1) >>, << P(2, 1), P(1, 2) >>, << L(1) >>,
                             << P(1, 1), P(2, 1) >>, << P(2, 1), P(1, 1) >>, << P(1, 1), P(1, 1) >>, << P(1, 1), L(1) >>, << L(1), P(2, 1) >>,
                             << P(0, 0), P(1, 1) >>, << P(1, 2), P(0, 0) >> } }
        ELSE {})
  \cup { [Call("opt") EXCEPT !.name = n, !.flag = b] :
           n \in { x \in OptFlips : ~quiet }, b \in { y \in BOOLEAN : \A x \in OptFlips : TRUE } }
  \cup (IF Regulate_ /\ s.ver = "v50"
        THEN { [Call("regulate") EXCEPT !.pkt = p] : p \in { q \in PublishPkts("v50", {0}, s.idw) : q.qos = 0 /\ (q.topic # "" \/ q.alias # 0) } }
        ELSE {})
  (* identifiers *)
  \cup (IF ~quiet /\ Cardinality(gh.held) < MaxHeld /\ Cardinality(gh.used) < MaxUsed THEN { Call("acquire") } ELSE {})
  \cup (IF ~quiet /\ IdOps
        THEN { [Call("register") EXCEPT !.id = pid] : pid \in ExtraPids \cup {0} }
             \cup { [Call("release") EXCEPT !.id = pid]       \* never the identifier of a running exchange
                     : pid \in (gh.held \cup ExtraPids \cup {0}) \ ({ e.pid : e \in gh.await } \cup gh.sub \cup gh.unsub) } ELSE {})
  \cup (IF ~quiet /\ Erase THEN { [Call("erase") EXCEPT !.id = s.store[i].pid] : i \in { j \in DOMAIN s.store : s.store[j].kind = "publish" } } ELSE {})
  \cup (IF ~quiet /\ gh.conn # "disc" THEN { [Call("set_interval") EXCEPT !.val = V(v)] : v \in Intervals } ELSE {})

(* ----------------------------------------------------------- initial states *)
RECURSIVE RunFrom(_, _, _, _, _)
RunFrom(s, gh, r, calls, i) ==        \* apply set-up calls i..Len(calls); returns [st, g, rec]
  IF i > Len(calls) THEN [st |-> s, g |-> gh, rec |-> r]
  ELSE LET a == Apply(s, calls[i])
           r2 == MkRec(a, "none", a)
       IN  RunFrom(a.st, GhostStep(gh, r, r2), r2, calls, i + 1)

OptSeq(os) == LET q == SetToSeq(os) IN [i \in DOMAIN q |-> [Call("opt") EXCEPT !.name = q[i], !.flag = TRUE]]

SetupCalls(role, ver, idw, os, rt) ==
  << [Call("new") EXCEPT !.role = role, !.ver = ver, !.idw = idw] >>
  \o OptSeq(os)
  \o (IF rt > 0 THEN << [Call("set_resp_timeout") EXCEPT !.val = rt] >> ELSE <<>>)

Rec0 == MkRec([st |-> New("client", "v311", 16), out |-> <<>>, call |-> NoCall], "none",
              [st |-> New("client", "v311", 16), out |-> <<>>, call |-> NoCall])

Init ==
  \E role \in Roles, ver \in Vers, idw \in Idws, os \in OptSets, rt \in RespTimeouts :
     /\ ~(ver = "undet" /\ role = "client")
     /\ LET calls == SetupCalls(role, ver, idw, os, rt)
            x == RunFrom(New(role, ver, idw), G0, Rec0, calls, 1)
        IN  /\ st = x.st /\ g = x.g /\ rec = x.rec /\ hist = calls
     /\ sh = NoShadow

(* --------------------------------------------------------------- transitions *)
IsConnectCall(c) == c.pkt.kind = "connect" /\ c.op \in {"send", "recv"}

Next ==
  \E c \in EnvChoices(st, g) :
     LET a == Apply(st, c)
         (* shadow bookkeeping: spawn / advance / drop *)
         spawnFresh == IsConnectCall(c) /\ g.everClosed /\ g.conn = "disc" /\ sh.mode # "restored"
         spawnFixed == IsConnectCall(c) /\ c.op = "recv" /\ st.ver = "undet" /\ c.pkt.ver \in {"v311", "v50"} /\ ~spawnFresh
         base == IF c.op = "crash"
                 THEN [mode |-> "restored", hf |-> c.flag,   \* hf: the order of the two restore calls (kept in the state so that BOTH are continued)
                       st |-> RestoreQos2(RestorePackets(FreshLike(st, st.ver), st.store), st.qos2)]
                 \* a reused object that still holds a persistent session is compared with a fresh object that was GIVEN
                 \* that session (export / import): whatever else the reused one remembers is connection-scoped state
                 \* (only where the export really is the whole session: every exchange in flight has its packet in the store)
                 ELSE IF spawnFresh /\ g.persistent /\ g.held = {} /\ ~(\E e \in g.await : e.kind = "pubrel")
                         /\ { e.pid : e \in g.await } \subseteq StoreIds(st)
                      THEN [mode |-> "resumed", hf |-> FALSE, st |-> RestoreQos2(RestorePackets(FreshLike(st, st.ver), st.store), st.qos2)]
                 ELSE IF spawnFresh THEN [mode |-> "fresh", hf |-> FALSE, st |-> FreshLike(st, st.ver)]
                 \* a fixed-version server that went through the same identifier-management calls
                 ELSE IF spawnFixed THEN [mode |-> "fixed", hf |-> FALSE, st |-> [FreshLike(st, c.pkt.ver) EXCEPT !.pool = st.pool]]
                 ELSE sh
         aF == IF base.mode = "none" \/ c.op = "crash" THEN [st |-> base.st, out |-> <<>>, call |-> c]
               ELSE Apply(base.st, c)
         r2 == MkRec(a, IF c.op = "crash" THEN "none" ELSE base.mode, aF)
     IN  /\ st' = a.st
         /\ sh' = [mode |-> base.mode, hf |-> base.hf, st |-> aF.st]
         /\ rec' = r2
         /\ g' = GhostStep(g, rec, r2)
         /\ hist' = Append(hist, a.call)

Spec == Init /\ [][Next]_vars

(* ------------------------------------------------------------------ properties *)
(* names of the design-level invariants of the specification itself that fail in a state *)
DesignViol(s, gh) ==
  (IF s.status = "connected" /\ ~(s.cnt \subseteq UsedSet(s)) THEN {"D-counted-id-not-in-use"} ELSE {})
  \cup (IF ~RepOK(s.pool, 1, MaxId(s.idw)) THEN {"D-pool-rep"} ELSE {})
  \cup (IF ~(StoreIds(s) \subseteq UsedSet(s)) THEN {"D-stored-id-not-in-use"} ELSE {})
  \cup (IF Cardinality(StoreIds(s)) # Len(s.store) THEN {"D-store-duplicate-id"} ELSE {})
  (* the ghost agrees with the design wherever both speak (the predicates are not vacuous monitors) *)
  \cup (IF gh.used \cap (1..40) # UsedSet(s) THEN {"G-used"} ELSE {})
  \cup (IF gh.handled # s.qos2 THEN {"G-handled"} ELSE {})
  \cup (IF gh.armed # (IF s.tSend THEN {"pingreq_send"} ELSE {}) \cup (IF s.tRecv THEN {"pingreq_recv"} ELSE {})
                       \cup (IF s.tResp THEN {"pingresp_recv"} ELSE {}) THEN {"G-armed"} ELSE {})
  \cup (IF { e.pid : e \in gh.await } # s.puback \cup s.pubrec \cup s.pubcomp \cup s.relPend THEN {"G-await"} ELSE {})

Brief(h) == [i \in DOMAIN h |-> << h[i].op, h[i].pkt.kind, h[i].pkt.pid, h[i].pkt.qos, h[i].pkt.clean, h[i].pkt.sp,
                                   h[i].pkt.rc, h[i].pkt.rm, h[i].pkt.sei, h[i].id, h[i].k, h[i].name, h[i].pkt.topic, h[i].pkt.alias, h[i].pkt.tam, h[i].pkt.mps >>]

NoViolation ==
  [][LET v == Viol(CheckProps, g, rec, rec', g') \cup DesignViol(st', g')
     IN  IF v = {} THEN TRUE ELSE PrintT(<< "SPECVIOL", ToJson([v |-> v, calls |-> Brief(hist')]) >>) /\ FALSE]_vars

(* ------------------------------------------------------------ transition cover *)
\* "to": the target state as a string - lets the driver rebuild the state GRAPH from the printed edges (the source of an
\* edge is the target of the edge that printed its history) and draw random walks through it
PrintEdge == PrintT(<< "E", ToJson([hist |-> hist', to |-> ToString(view')]) >>)
=============================================================================
