SPECIFICATION Spec
CONSTANT MaxV = 4
VIEW view
INVARIANT Rep
PROPERTY RefinesFreeSet
ACTION_CONSTRAINT PrintEdge
CHECK_DEADLOCK FALSE
