SPECIFICATION Spec
ACTION_CONSTRAINT PrintItem
CHECK_DEADLOCK FALSE
