\* generated by lib/slices.py from slice 'qos_c311' - do not edit
SPECIFICATION Spec
VIEW view
CHECK_DEADLOCK FALSE
PROPERTY NoViolation
ACTION_CONSTRAINT PrintEdge
CONSTANTS
 Roles = {"client"}
 Vers = {"v311"}
 Idws = {16}
 CheckProps = {"C05", "C06", "C07", "C08", "C10", "C11", "C12", "C13", "C14", "C15", "C16", "C17", "C19"}
 OptSets = {{}}
 RespTimeouts = {0}
 MaxConns = 2
 MaxHeld = 1
 MaxUsed = 2
 AppKinds = {"publish", "pubrel"}
 PeerKinds = {"puback", "pubcomp", "pubrec"}
 QosSet = {1, 2}
 Topics = {"t1"}
 Aliases = {0}
 InPids = {1}
 ExtraPids = {9}
 Rcs = {0}
 Cleans = {FALSE, TRUE}
 SPs = {FALSE, TRUE}
 KAs = {0}
 RMs = {99999}
 TAMs = {99999}
 MPSs = {99999}
 SEIs = {99999}
 SKAs = {99999}
 ConnackRcs = {0}
 Intervals = {}
 Fire = FALSE
 Close = TRUE
 Erase = FALSE
 IdOps = FALSE
 Crash = FALSE
 Garbage = FALSE
 BadFrames = {}
 SendWhileDisc = FALSE
 PeerWhileDisc = FALSE
