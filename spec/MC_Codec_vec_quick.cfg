SPECIFICATION Spec
CONSTANT Mode = "vec"
CONSTANT Tier = "quick"
INVARIANT RefOK
ACTION_CONSTRAINT PrintItem
CHECK_DEADLOCK FALSE
