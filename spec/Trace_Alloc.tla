----------------------------- MODULE Trace_Alloc -----------------------------
(***************************************************************************)
(* Judges recorded behaviours of the real ValueAllocator / PacketIdManager *)
(* (an NDJSON trie written by harness `alloc`) against Allocator.tla.      *)
(* One TLC state per trie node; the ghost `pool` is the specification's    *)
(* interval list, advanced by the specification's own operators from the   *)
(* logged calls; the logged answers and the logged interval list (hook)    *)
(* must equal the specification's.  Never stops at a violation: prints     *)
(* VIOL lines, re-synchronises the ghost from the log, continues.          *)
(*                                                                         *)
(* Node record: [id, parent, kids, op, v, lo, hi, ok, val, ivs, panic]     *)
(*   op \in {new, allocate, first_vacant, use_value, deallocate, is_used,   *)
(*          clear}; ivs = free intervals after the call as <<low,high>>    *)
(***************************************************************************)
EXTENDS Allocator, TLC, Json, IOUtils, SequencesExt

Rec == ndJsonDeserialize(IOEnv.TRIE)
Node(i) == Rec[i + 1]
Kids(i) == ToSet(Node(i).kids)

VARIABLES n,        \* current trie node id
          lo, hi,   \* range of the allocator of this path
          pool      \* ghost: specification pool after node n

vars == << n, lo, hi, pool >>

IvsOf(r) == [ i \in 1..Len(r.ivs) |-> Iv(r.ivs[i][1], r.ivs[i][2]) ]

(* expected [ok, val, pool] of call r in ghost state p *)
Expect(p, l, h, r) ==
  CASE r.op = "allocate"     -> Allocate(p)
    [] r.op = "first_vacant" -> LET x == FirstVacant(p) IN [ok |-> x.ok, val |-> x.val, pool |-> p]
    [] r.op = "use_value"    -> LET x == UseValue(p, r.v) IN [ok |-> x.ok, val |-> 0, pool |-> x.pool]
    [] r.op = "deallocate"   -> [ok |-> TRUE, val |-> 0, pool |-> Deallocate(p, r.v)]
    [] r.op = "is_used"      -> [ok |-> IsUsed(p, l, h, r.v), val |-> 0, pool |-> p]
    [] r.op = "clear"        -> [ok |-> TRUE, val |-> 0, pool |-> Clear(l, h)]

(* the false clauses of C20 at node r *)
Clauses(p, l, h, r) ==
  LET e == Expect(p, l, h, r) IN
  (IF r.panic THEN {"panic"} ELSE {})
  \cup (IF ~r.panic /\ r.ok # e.ok THEN {"answer-" \o r.op} ELSE {})
  \cup (IF ~r.panic /\ r.ok /\ e.ok /\ r.op \in {"allocate", "first_vacant"} /\ r.val # e.val
        THEN {"smallest-first-" \o r.op} ELSE {})
  \cup (IF ~r.panic /\ ~RepOK(IvsOf(r), l, h) THEN {"representation"} ELSE {})
  \cup (IF ~r.panic /\ RepOK(IvsOf(r), l, h) /\ IvsOf(r) # e.pool THEN {"free-set-" \o r.op} ELSE {})

Init ==
  /\ n = 0 /\ lo = 0 /\ hi = 0 /\ pool = <<>>

NewClauses(r) ==
  (IF r.panic THEN {"panic"} ELSE {})
  \cup (IF ~r.panic /\ IvsOf(r) # InitPool(r.lo, r.hi) THEN {"free-set-new"} ELSE {})

Next ==
  \E k \in Kids(n) :
     LET r == Node(k) IN
     /\ n' = k
     /\ IF r.op = "new"
        THEN /\ lo' = r.lo /\ hi' = r.hi /\ pool' = InitPool(r.lo, r.hi)
             /\ IF NewClauses(r) = {} THEN TRUE ELSE PrintT(<< "VIOL", ToJson([n |-> k, c |-> NewClauses(r)]) >>)
        ELSE LET c == Clauses(pool, lo, hi, r)
                 e == Expect(pool, lo, hi, r)
             IN  /\ UNCHANGED << lo, hi >>
                 /\ IF c = {} THEN TRUE ELSE PrintT(<< "VIOL", ToJson([n |-> k, c |-> c]) >>)
                 \* re-synchronise from the log when it is a legal representation, else keep the expectation
                 /\ pool' = IF r.panic THEN pool
                            ELSE IF RepOK(IvsOf(r), lo, hi) THEN IvsOf(r) ELSE e.pool

Spec == Init /\ [][Next]_vars

(* every node must have been visited *)
AllVisited == TLCGet("stats").distinct = Len(Rec) \/ PrintT(<< "UNVISITED", TLCGet("stats").distinct, Len(Rec) >>)
=============================================================================
