\* generated by lib/slices.py from slice 'rgate' - do not edit
SPECIFICATION Spec
VIEW view
CHECK_DEADLOCK FALSE
PROPERTY NoViolation
ACTION_CONSTRAINT PrintEdge
CONSTANTS
 Roles = {"any", "client", "server"}
 Vers = {"undet", "v311", "v50"}
 Idws = {16}
 CheckProps = {"C05", "C06", "C07", "C08", "C10", "C11", "C12", "C13", "C14", "C15", "C16", "C17", "C19"}
 OptSets = {{}}
 RespTimeouts = {0}
 MaxConns = 1
 MaxHeld = 0
 MaxUsed = 2
 AppKinds = {}
 PeerKinds = {"auth", "disconnect", "pingreq", "pingresp", "puback", "pubcomp", "publish", "pubrec", "pubrel", "suback", "subscribe", "unsuback", "unsubscribe"}
 QosSet = {0, 1}
 Topics = {"t1"}
 Aliases = {0}
 InPids = {1}
 ExtraPids = {9}
 Rcs = {0}
 Cleans = {TRUE}
 KAs = {0}
 ConnRMs = {99999}
 ConnTAMs = {99999}
 ConnMPSs = {99999}
 ConnSEIs = {99999}
 SPs = {FALSE}
 ConnackRcs = {0}
 AckRMs = {99999}
 AckTAMs = {99999}
 AckMPSs = {99999}
 AckSEIs = {99999}
 SKAs = {99999}
 RogueHandshake = TRUE
 PartialFrames = FALSE
 Intervals = {}
 Fire = FALSE
 Close = FALSE
 Erase = FALSE
 IdOps = FALSE
 Crash = FALSE
 Garbage = FALSE
 BadFrames = {"connect"}
 SendWhileDisc = FALSE
 PeerWhileDisc = TRUE
 LateFrames = FALSE
 CrossVersion = FALSE
 Restore = FALSE
 Regulate_ = FALSE
 OptFlips = {}
 FreeIdSends = FALSE
 LateSends = FALSE
 Msgs = {"m1"}
