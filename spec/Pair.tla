-------------------------------- MODULE Pair --------------------------------
(***************************************************************************)
(* Property C01 as predicates over one step of a TWO-endpoint behaviour    *)
(* (a client connection and a server connection exchanging the bytes each  *)
(* requests to send).  Shared by MC_Pair (TLC explores the composition of  *)
(* two Endpoint.tla instances, channels, chunking, transport loss and      *)
(* session resumption) and Trace_Pair (recorded behaviours of two real     *)
(* objects).                                                               *)
(*                                                                         *)
(* Pair ghost pg (built from logged observables only):                     *)
(*   msgs   accepted application messages [tag, from, qos, topic]          *)
(*   got    [tag -> number of times notified to the receiving application] *)
(*   losses number of transport losses so far                              *)
(***************************************************************************)
EXTENDS Step

PG0 == [msgs |-> {}, got |-> {}, losses |-> 0]

GotOf(pg, tag) == LET S == { e \in pg.got : e.tag = tag } IN IF S = {} THEN 0 ELSE (CHOOSE e \in S : TRUE).n
GotInc(got, tag) ==
  LET S == { e \in got : e.tag = tag }
  IN  IF S = {} THEN got \cup { [tag |-> tag, n |-> 1] }
      ELSE { e \in got : e.tag # tag } \cup { [tag |-> tag, n |-> (CHOOSE e \in S : TRUE).n + 1] }

RECURSIVE GotAfter(_, _, _)
GotAfter(got, out, i) ==
  IF i > Len(out) THEN got
  ELSE GotAfter(IF out[i].ev = "recv" /\ out[i].pkt.kind = "publish" THEN GotInc(got, out[i].pkt.msg) ELSE got, out, i + 1)

(* who \in {"c", "s"}; r the step record of that endpoint; intended topic of an alias-only publish = the
   topic the sender's peer table holds (the application named none) *)
PairStep(pg, who, r, topicOfEmpty) ==
  LET p == r.call.pkt
      accepted == r.call.op = "send" /\ p.kind = "publish" /\ ~HasErr(r.out) /\ ~r.panic
  IN  [pg EXCEPT
         !.msgs = IF accepted
                  THEN @ \cup { [tag |-> p.msg, from |-> who, qos |-> p.qos, topic |-> IF p.topic = "" THEN topicOfEmpty ELSE p.topic] }
                  ELSE @,
         !.got = GotAfter(@, r.out, 1),
         !.losses = IF r.call.op = "closed" /\ who = "c" THEN @ + 1 ELSE @]

MsgOf(pg, tag) == LET S == { m \in pg.msgs : m.tag = tag } IN IF S = {} THEN [tag |-> tag, from |-> "?", qos |-> 0, topic |-> "?"] ELSE CHOOSE m \in S : TRUE

(* false clauses of C01 at a step of endpoint `who`; quiet = nothing is in flight and no duty is pending *)
ViolC01(pg, who, r, pg2, quiet, oc, os, dc, ds, vacOK) ==
  (IF r.panic THEN {"C01e-panic"} ELSE {})
  \cup (IF r.call.op \in {"recv", "fire"} /\ HasErr(r.out) THEN {"C01a-error-about-the-peer"} ELSE {})
  \cup (IF \E i \in DOMAIN r.out : r.out[i].ev = "recv" /\ r.out[i].pkt.kind = "publish" /\
             LET m == MsgOf(pg2, r.out[i].pkt.msg) IN
               m.from = "?" \/ m.from = who \/ m.topic # r.out[i].pkt.topic \/ m.qos # r.out[i].pkt.qos
        THEN {"C01c-message-altered"} ELSE {})
  \cup (IF \E m \in pg2.msgs : GotOf(pg2, m.tag) > 1 /\ (m.qos \in {0, 2} \/ pg2.losses = 0)
        THEN {"C01b-delivered-too-often"} ELSE {})
  \cup (IF quiet /\ \E m \in pg2.msgs : m.qos > 0 /\ GotOf(pg2, m.tag) = 0 THEN {"C01b-never-delivered"} ELSE {})
  \cup (IF quiet /\ (oc.stored # <<>> \/ os.stored # <<>>) THEN {"C01d-store-not-empty-at-quiescence"} ELSE {})
  \cup (IF quiet /\ (dc.used # <<>> \/ ds.used # <<>>) THEN {"C01d-identifier-not-released-at-quiescence"} ELSE {})
  \cup (IF quiet /\ ~vacOK THEN {"C01d-vacancy-not-regained"} ELSE {})
=============================================================================
