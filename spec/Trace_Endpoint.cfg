SPECIFICATION Spec
POSTCONDITION AllVisited
CHECK_DEADLOCK FALSE
CONSTANTS
 CheckProps = {"C05","C06","C07","C08","C10","C11","C12","C13","C14","C15","C16","C17","C19"}
 LevelB = TRUE
