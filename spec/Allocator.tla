----------------------------- MODULE Allocator -----------------------------
(***************************************************************************)
(* ValueAllocator (src/mqtt/common/value_allocator.rs) as a sorted         *)
(* sequence of closed intervals of FREE values, one operator per public    *)
(* method, one IF-branch per neighbour configuration of the code.          *)
(*                                                                         *)
(* The module is purely functional (no variables) so that it can be used   *)
(*  - by MC_Allocator : model-checked against the set-of-free-integers     *)
(*    semantics (the refinement FreeSet(pool) and RepOK);                  *)
(*  - by Trace_Alloc  : as the ghost that judges recorded behaviours of    *)
(*    the real allocator (answers AND interval list, which is unique for a *)
(*    given free set because it must be sorted, disjoint and merged);      *)
(*  - by Endpoint     : as the packet-identifier manager.                  *)
(* All arithmetic stays inside [lo, hi] so that 32-bit ranges mapped onto  *)
(* TLC's int range (offset binary) never overflow.                         *)
(***************************************************************************)
EXTENDS Integers, Sequences, FiniteSets

Iv(l, h) == [low |-> l, high |-> h]

InitPool(lo, hi) == << Iv(lo, hi) >>

(* Representation invariant: inside the range, sorted, disjoint, maximally merged. *)
RepOK(pool, lo, hi) ==
  /\ \A i \in 1..Len(pool) :
        /\ pool[i].low <= pool[i].high
        /\ lo <= pool[i].low
        /\ pool[i].high <= hi
  /\ \A i \in 1..(Len(pool) - 1) :
        /\ pool[i].high < pool[i+1].low          \* sorted, disjoint
        /\ pool[i].high + 1 < pool[i+1].low      \* not adjacent: maximally merged

(* Refinement mapping: the set of free integers. Only for small ranges. *)
FreeSet(pool) == UNION { pool[i].low .. pool[i].high : i \in 1..Len(pool) }

IvHas(iv, v) == iv.low <= v /\ v <= iv.high

(* index of the interval containing v, 0 if none *)
IndexOf(pool, v) ==
  LET S == { i \in 1..Len(pool) : IvHas(pool[i], v) }
  IN  IF S = {} THEN 0 ELSE CHOOSE i \in S : TRUE

(* number of intervals entirely below v *)
Below(pool, v) == Cardinality({ i \in 1..Len(pool) : pool[i].high < v })

Splice(pool, from, to, mid) ==          \* replace pool[from..to] by the sequence mid
  SubSeq(pool, 1, from - 1) \o mid \o SubSeq(pool, to + 1, Len(pool))

(* allocate(): smallest free value, or nothing *)
Allocate(pool) ==
  IF pool = <<>>
  THEN [ok |-> FALSE, val |-> 0, pool |-> pool]
  ELSE LET iv == pool[1]
       IN  [ok |-> TRUE, val |-> iv.low,
            pool |-> IF iv.low < iv.high
                     THEN << Iv(iv.low + 1, iv.high) >> \o Tail(pool)
                     ELSE Tail(pool)]

FirstVacant(pool) ==
  IF pool = <<>> THEN [ok |-> FALSE, val |-> 0] ELSE [ok |-> TRUE, val |-> pool[1].low]

(* use_value(v): succeeds exactly for free values (an out-of-range value is never free) *)
UseValue(pool, v) ==
  LET i == IndexOf(pool, v)
  IN  IF i = 0
      THEN [ok |-> FALSE, pool |-> pool]
      ELSE LET iv == pool[i]
               l  == IF iv.low < v  THEN << Iv(iv.low, v - 1) >> ELSE <<>>
               r  == IF v < iv.high THEN << Iv(v + 1, iv.high) >> ELSE <<>>
           IN  [ok |-> TRUE, pool |-> Splice(pool, i, i, l \o r)]

(* deallocate(v): precondition lo <= v <= hi.  Releasing a value that is already free changes nothing (the set of free
   integers already contains it); for a used value: four neighbour cases. *)
Deallocate(pool, v) ==
  IF IndexOf(pool, v) # 0 THEN pool ELSE
  LET k     == Below(pool, v)                       \* left neighbour index (0 = none)
      hasL  == k >= 1
      hasR  == k + 1 <= Len(pool)
      adjL  == hasL /\ pool[k].high < v /\ pool[k].high + 1 = v
      adjR  == hasR /\ v < pool[k+1].low /\ v + 1 = pool[k+1].low
  IN  IF adjL /\ adjR THEN Splice(pool, k, k + 1, << Iv(pool[k].low, pool[k+1].high) >>)
      ELSE IF adjL    THEN Splice(pool, k, k, << Iv(pool[k].low, v) >>)
      ELSE IF adjR    THEN Splice(pool, k + 1, k + 1, << Iv(v, pool[k+1].high) >>)
      ELSE                 Splice(pool, k + 1, k, << Iv(v, v) >>)

(* is_used(v): in range and not free.  Out of range => "not used". *)
IsUsed(pool, lo, hi, v) == lo <= v /\ v <= hi /\ IndexOf(pool, v) = 0

Clear(lo, hi) == InitPool(lo, hi)

=============================================================================
