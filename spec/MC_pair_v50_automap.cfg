\* generated by lib/slices.py from pair slice 'pair_v50_automap' - do not edit
SPECIFICATION Spec
VIEW view
CHECK_DEADLOCK FALSE
PROPERTY NoViolation
ACTION_CONSTRAINT PrintEdge
CONSTANTS
 Ver = "v50"
 AutoPub = TRUE
 AutoPing = TRUE
 KA = 0
 SRM = 99999
 CRM = 99999
 STAM = 1
 CTAM = 1
 SMPS = 13
 CMPS = 13
 AutoMap = TRUE
 MaxOps = 3
 MaxLoss = 0
 MaxFire = 0
 Ops = {"pub0", "pub1"}
 Sides = {"c", "s"}
 AliasModes = {"none"}
 Chunks = FALSE
 EndpointProps = {"C05", "C06", "C07", "C08", "C12", "C13", "C14", "C15", "C19"}
 Record = TRUE
