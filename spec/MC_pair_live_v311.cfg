\* generated by lib/slices.py from pair liveness slice 'pair_live_v311' - do not edit
SPECIFICATION FairSpec
CHECK_DEADLOCK FALSE
PROPERTY Terminates
CONSTANTS
 Ver = "v311"
 AutoPub = TRUE
 AutoPing = TRUE
 KA = 0
 SRM = 99999
 CRM = 99999
 STAM = 99999
 CTAM = 99999
 SMPS = 99999
 CMPS = 99999
 AutoMap = FALSE
 MaxOps = 2
 MaxLoss = 1
 MaxFire = 0
 Ops = {"pub0", "pub1", "pub2"}
 Sides = {"c", "s"}
 AliasModes = {"none"}
 Chunks = FALSE
 EndpointProps = {"C05", "C06", "C07", "C08", "C12", "C13", "C14", "C15", "C19"}
 Record = FALSE
