\* generated by lib/slices.py from pair slice 'pair_v311_manual' - do not edit
SPECIFICATION Spec
VIEW view
CHECK_DEADLOCK FALSE
PROPERTY NoViolation
ACTION_CONSTRAINT PrintEdge
CONSTANTS
 Ver = "v311"
 AutoPub = FALSE
 AutoPing = FALSE
 KA = 0
 SRM = 99999
 CRM = 99999
 STAM = 99999
 CTAM = 99999
 SMPS = 99999
 CMPS = 99999
 AutoMap = FALSE
 MaxOps = 2
 MaxLoss = 1
 MaxFire = 0
 Ops = {"ping", "pub1", "pub2", "sub"}
 Sides = {"c"}
 AliasModes = {"none"}
 Chunks = FALSE
 EndpointProps = {"C05", "C06", "C07", "C08", "C12", "C13", "C14", "C15", "C19"}
 Record = TRUE
