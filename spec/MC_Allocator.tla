---------------------------- MODULE MC_Allocator ----------------------------
(***************************************************************************)
(* Model-checks Allocator.tla against the plain set-of-free-integers       *)
(* semantics for ALL ranges lo..hi inside 0..MaxV and all operation        *)
(* sequences (the state space is finite: canonical pools <-> subsets), and *)
(* prints one line per explored transition (history + operation) that the  *)
(* harness replays on the real ValueAllocator.                             *)
(***************************************************************************)
EXTENDS Allocator, TLC, Json

CONSTANTS MaxV            \* ranges are sub-ranges of 0..MaxV; probes reach one beyond each end

VARIABLES lo, hi, pool,   \* the allocator
          last,           \* the last call and its answer        (hidden by VIEW)
          hist            \* the calls that led here              (hidden by VIEW)

vars == << lo, hi, pool, last, hist >>
view == << lo, hi, pool >>

Probe == (lo - 1) .. (hi + 1)
F     == FreeSet(pool)
Used  == (lo .. hi) \ F
MinOf(S) == CHOOSE x \in S : \A y \in S : x <= y

Init ==
  \E l \in 0..MaxV, h \in 0..MaxV :
     /\ l <= h
     /\ lo = l /\ hi = h /\ pool = InitPool(l, h)
     /\ last = [op |-> "new", v |-> 0, ok |-> TRUE, val |-> 0]
     /\ hist = << [op |-> "new", v |-> 0, lo |-> l, hi |-> h] >>

Op(o, v, ok, val, p) ==
  /\ pool' = p
  /\ last' = [op |-> o, v |-> v, ok |-> ok, val |-> val]
  /\ hist' = Append(hist, [op |-> o, v |-> v])
  /\ UNCHANGED << lo, hi >>

DoAllocate    == LET r == Allocate(pool)    IN Op("allocate", 0, r.ok, r.val, r.pool)
DoFirstVacant == LET r == FirstVacant(pool) IN Op("first_vacant", 0, r.ok, r.val, pool)
DoUseValue    == \E v \in Probe : LET r == UseValue(pool, v) IN Op("use_value", v, r.ok, 0, r.pool)
DoDeallocate  == \E v \in lo..hi : Op("deallocate", v, TRUE, 0, Deallocate(pool, v))    \* used values and free ones
DoIsUsed      == \E v \in Probe : Op("is_used", v, IsUsed(pool, lo, hi, v), 0, pool)
DoClear       == Op("clear", 0, TRUE, 0, Clear(lo, hi))

Next == DoAllocate \/ DoFirstVacant \/ DoUseValue \/ DoDeallocate \/ DoIsUsed \/ DoClear

Spec == Init /\ [][Next]_vars

(* ---- the property: refinement of the set of free integers (C20) ---- *)
Rep == RepOK(pool, lo, hi)

F2 == FreeSet(pool')
SetSemantics ==
  LET o == last'.op  v == last'.v IN
  /\ o = "allocate"     => IF F = {} THEN ~last'.ok /\ F2 = F
                                     ELSE last'.ok /\ last'.val = MinOf(F) /\ F2 = F \ {MinOf(F)}
  /\ o = "first_vacant" => /\ F2 = F
                           /\ last'.ok = (F # {})
                           /\ (F # {} => last'.val = MinOf(F))
  /\ o = "use_value"    => last'.ok = (v \in F) /\ F2 = F \ {v}
  /\ o = "deallocate"   => F2 = F \cup {v}
  /\ o = "is_used"      => last'.ok = (v \in lo..hi /\ v \notin F) /\ F2 = F
  /\ o = "clear"        => F2 = lo..hi
  /\ RepOK(pool', lo, hi)

RefinesFreeSet == [][SetSemantics]_vars

(* ---- transition cover for replay ---- *)
PrintEdge == PrintT(<< "E", ToJson([hist |-> hist']) >>)
=============================================================================
