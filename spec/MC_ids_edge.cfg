\* generated by lib/slices.py from slice 'ids_edge' - do not edit
SPECIFICATION Spec
VIEW view
CHECK_DEADLOCK FALSE
PROPERTY NoViolation
ACTION_CONSTRAINT PrintEdge
CONSTANTS
 Roles = {"client"}
 Vers = {"v311", "v50"}
 Idws = {16}
 CheckProps = {"C05", "C06", "C07", "C08", "C10", "C11", "C12", "C13", "C14", "C15", "C16", "C17", "C19"}
 OptSets = {{}}
 RespTimeouts = {0}
 MaxConns = 1
 MaxHeld = 2
 MaxUsed = 2
 AppKinds = {"publish", "subscribe"}
 PeerKinds = {"puback", "suback"}
 QosSet = {1}
 Topics = {"t1"}
 Aliases = {0}
 InPids = {1}
 ExtraPids = {65535}
 Rcs = {0}
 Cleans = {TRUE}
 KAs = {0}
 ConnRMs = {99999}
 ConnTAMs = {99999}
 ConnMPSs = {99999}
 ConnSEIs = {99999}
 SPs = {FALSE}
 ConnackRcs = {0}
 AckRMs = {99999}
 AckTAMs = {99999}
 AckMPSs = {99999}
 AckSEIs = {99999}
 SKAs = {99999}
 RogueHandshake = FALSE
 PartialFrames = FALSE
 Intervals = {}
 Fire = FALSE
 Close = TRUE
 Erase = FALSE
 IdOps = TRUE
 Crash = FALSE
 Garbage = FALSE
 BadFrames = {}
 SendWhileDisc = FALSE
 PeerWhileDisc = FALSE
 LateFrames = FALSE
 CrossVersion = FALSE
 Restore = FALSE
 Regulate_ = FALSE
 OptFlips = {}
 FreeIdSends = FALSE
 LateSends = FALSE
 Msgs = {"m1"}
