SPECIFICATION Spec
CONSTANT Mode = "c04"
CONSTANT Tier = "thorough"
INVARIANT RefOK
ACTION_CONSTRAINT PrintItem
CHECK_DEADLOCK FALSE
