----------------------------- MODULE MC_Framing -----------------------------
(***************************************************************************)
(* C09, specification side.  For EVERY stream of up to MaxFrames abstract  *)
(* frames (valid, non-minimal Remaining Length, zero-length body, the      *)
(* illegal 5-byte Remaining Length followed by further frames) and EVERY   *)
(* partition of its bytes into successive receive buffers, the chunked     *)
(* machine Framing!Feed, called repeatedly on (buffer, cursor) exactly as  *)
(* Connection::recv(&mut Cursor) is, refines the atomic specification      *)
(* "the same stream cut at frame boundaries":                              *)
(*   - the sequence of non-Incomplete results equals the frames of the     *)
(*     stream, in order, with the same first byte, length bytes and body   *)
(*     (nothing lost, duplicated or reordered);                            *)
(*   - a call never consumes beyond the end of the frame in progress nor   *)
(*     beyond the buffer; Incomplete means the buffer was used up;         *)
(*   - Error exactly at the 4th length byte carrying a continuation bit,   *)
(*     after which the machine is in its initial state (the next byte      *)
(*     starts a new frame).                                                *)
(*                                                                         *)
(* A receive buffer is (bufEnd, pos): the bytes of the stream in           *)
(* (bufStart, bufEnd] with the cursor at stream offset pos.  When a call   *)
(* leaves pos < bufEnd the caller must call again with the same buffer;    *)
(* when pos = bufEnd the environment chooses the next buffer (possibly     *)
(* empty).  hist (the buffer lengths chosen so far), last and results are  *)
(* history variables hidden by the VIEW: the graph is (stream, pos,        *)
(* bufEnd, machine state, frames done), every partition is a path of it,   *)
(* and the action property is evaluated on every transition.               *)
(*                                                                         *)
(* One JSON line is printed per explored buffer choice (stream + buffer    *)
(* lengths up to and including the new one): the transition cover that     *)
(* the harness replays on the real PacketBuilder and Connection::recv      *)
(* (all of them when Sample = 1, else the deterministic sample selected    *)
(* by Salt, which the driver derives from VERIF_SEED).                     *)
(***************************************************************************)
EXTENDS Framing, TLC, Json

CONSTANTS MaxFrames,    \* streams have 1..MaxFrames frames
          Firsts,       \* first bytes (0x30 PUBLISH -> Arc body, 0xC0 other -> Vec body)
          Widths,       \* Remaining Length widths (1..4); non-minimal when larger than needed
          BodyLens,     \* body lengths
          ErrFirst, ErrLast,   \* 1st and 4th length byte of the illegal forms (all >= 128)
          Near,         \* 1000000: every cut position; k < 1000000: only cuts within k bytes of a header/frame boundary
          WithBody,     \* TRUE: Feed (body bytes copied and compared); FALSE: FeedV (bodies counted)
          Sample, Salt  \* replay sampling: an edge is printed iff EdgeHash % Sample = Salt (Sample = 1: all)

VARIABLES frames,       \* the stream, as abstract frames [k, fh, lb, n]
          stream,       \* its bytes (materialised only when WithBody; a function of frames)
          ends,         \* ends[k] = stream offset of the last byte of frame k
          pos, bufEnd,  \* receive buffer: cursor and end, as stream offsets
          st,           \* Framing state
          done,         \* frames emitted so far (Complete or Error)
          last,         \* last call: [res, consumed]                    (hidden)
          results,      \* the non-Incomplete results so far             (hidden)
          hist          \* lengths of the buffers chosen so far           (hidden)

vars == << frames, stream, ends, pos, bufEnd, st, done, last, results, hist >>
view == << frames, pos, bufEnd, st, done >>

ErrForms == { << a, 128, 128, d >> : a \in ErrFirst, d \in ErrLast }
Catalogue ==
  { [k |-> "ok", fh |-> f, lb |-> EncLen(n, w), n |-> n] :
        f \in Firsts, w \in Widths, n \in BodyLens }
  \cup { [k |-> "err", fh |-> f, lb |-> e, n |-> 0] : f \in Firsts, e \in ErrForms }
Valid(f) == f.k = "err" \/ Encodable(f.n, Len(f.lb))
Streams == UNION { [1..m -> { f \in Catalogue : Valid(f) }] : m \in 1..MaxFrames }

Size(f) == 1 + Len(f.lb) + f.n
RECURSIVE SumTo(_, _)
SumTo(fs, k) == IF k = 0 THEN 0 ELSE SumTo(fs, k - 1) + Size(fs[k])

BodyByte(k, p) == (k * 64 + p) % 251         \* position-coded: loss, duplication, reordering all show
BodyOf(k, n) == [ p \in 1..n |-> BodyByte(k, p) ]

StartOf(en, k) == IF k = 1 THEN 0 ELSE en[k - 1]
ByteAtIn(fs, en, off) ==                     \* 1-based stream offset -> byte
  LET k   == CHOOSE x \in 1..Len(fs) : StartOf(en, x) < off /\ off <= en[x]
      rel == off - StartOf(en, k)
      w   == Len(fs[k].lb)
  IN  IF rel = 1 THEN fs[k].fh
      ELSE IF rel <= 1 + w THEN fs[k].lb[rel - 1]
      ELSE BodyByte(k, rel - 1 - w)

(* sanity of the generator: the atomic framing of the generated bytes is the chosen frames *)
AtomicOK(fs, en) ==
  LET bytes == [ i \in 1..en[Len(fs)] |-> ByteAtIn(fs, en, i) ]
      A     == AtomicFraming(bytes)
  IN  /\ Len(A) = Len(fs)
      /\ \A k \in 1..Len(fs) :
            /\ A[k].kind = (IF fs[k].k = "ok" THEN "frame" ELSE "error")
            /\ A[k].fh = fs[k].fh
            /\ A[k].lb = fs[k].lb
            /\ A[k].size = Size(fs[k])
            /\ A[k].body = BodyOf(k, fs[k].n)

Total   == ends[Len(frames)]
ByteAt(off) == ByteAtIn(frames, ends, off)

Init ==
  \E fs \in Streams :
     LET en == [ k \in 1..Len(fs) |-> SumTo(fs, k) ] IN
     /\ Assert(AtomicOK(fs, en), << "generator and AtomicFraming disagree", fs >>)
     /\ frames = fs /\ ends = en
     /\ stream = IF WithBody THEN [ i \in 1..en[Len(fs)] |-> ByteAtIn(fs, en, i) ] ELSE << >>
     /\ pos = 0 /\ bufEnd = 0 /\ st = InitState /\ done = 0
     /\ last = [res |-> Incomplete, consumed |-> 0]
     /\ results = << >> /\ hist = << >>

Boundaries ==
  {0} \cup { ends[k] : k \in 1..Len(frames) }
      \cup { StartOf(ends, k) + 1 : k \in 1..Len(frames) }
      \cup { StartOf(ends, k) + 1 + Len(frames[k].lb) : k \in 1..Len(frames) }
Abs(x) == IF x < 0 THEN 0 - x ELSE x
CutOK(e) == Near >= 1000000 \/ e = Total \/ \E b \in Boundaries : Abs(e - b) <= Near

Call(e) ==
  LET avail == e - pos
      hd    == [ i \in 1..Min2(5, avail) |-> ByteAt(pos + i) ]
      r     == IF WithBody
               THEN Feed(st, SubSeq(stream, pos + 1, e))
               ELSE LET v == FeedV(st, hd, avail)
                    IN  [state |-> v.state, consumed |-> v.hused + v.bused, result |-> v.res]
  IN  /\ st' = r.state
      /\ pos' = pos + r.consumed
      /\ bufEnd' = e
      /\ done' = done + (IF r.result.kind = "incomplete" THEN 0 ELSE 1)
      /\ last' = [res |-> r.result, consumed |-> r.consumed]
      /\ results' = IF r.result.kind = "incomplete" THEN results ELSE Append(results, r.result)
      /\ hist' = IF pos = bufEnd THEN Append(hist, e - pos) ELSE hist
      /\ UNCHANGED << frames, stream, ends >>

Next ==
  \E e \in pos..Total :
     /\ (pos < bufEnd) => e = bufEnd          \* the caller calls again with the same buffer
     /\ (pos = bufEnd) => CutOK(e)            \* next receive buffer (e = pos: an empty one)
     /\ Call(e)

Spec == Init /\ [][Next]_vars

(* ---- the specification the chunked machine must refine ---- *)
Expected(k) ==
  IF frames[k].k = "ok"
  THEN [kind |-> "complete", fh |-> frames[k].fh, lb |-> frames[k].lb, n |-> frames[k].n,
        body |-> IF WithBody THEN BodyOf(k, frames[k].n) ELSE << >>]
  ELSE Error

StepOK ==
  LET k == done + 1
      r == last'.res
      c == last'.consumed
  IN  /\ c >= 0 /\ pos' = pos + c /\ pos' <= bufEnd'                    \* never past the buffer
      /\ (k <= Len(frames)) => pos' <= ends[k]                          \* at most one frame per call
      /\ (k > Len(frames)) => (c = 0 /\ r.kind = "incomplete")
      /\ (r.kind # "incomplete") =>
            /\ k <= Len(frames)
            /\ r = Expected(k)                                           \* nothing lost / duplicated / reordered
            /\ pos' = ends[k]
            /\ st' = InitState                                           \* the next byte starts a new frame
      /\ (r.kind = "incomplete") =>
            /\ pos' = bufEnd'                                            \* the buffer was used up
            /\ (k <= Len(frames)) => pos' < ends[k]                      \* and the frame really is not finished
      /\ results' = [ i \in 1..done' |-> Expected(i) ]                   \* sequence of results = AtomicFraming

Refines == [][StepOK]_vars

TypeOK ==
  /\ 0 <= pos /\ pos <= bufEnd /\ bufEnd <= Total
  /\ st.phase \in {0, 1, 2}
  /\ Len(st.hdr) <= 5
  /\ (st.phase = 0) => st = InitState
  /\ (pos = Total) => (done = Len(frames) /\ st = InitState)            \* everything delivered, nothing buffered

(* ---- transition cover for replay: one line per buffer choice ---- *)
FramesJ == [ k \in 1..Len(frames) |-> [k |-> frames[k].k, fh |-> frames[k].fh, lb |-> frames[k].lb, n |-> frames[k].n] ]
EdgeHash ==
  LET f1 == frames[1]
      fl == frames[Len(frames)]
  IN  3 * pos + 5 * bufEnd' + 11 * Total + 13 * f1.n + 17 * Len(f1.lb) + 19 * fl.n + 23 * Len(fl.lb)
      + 29 * (f1.fh \div 16) + 31 * (fl.fh \div 16) + 37 * f1.lb[Len(f1.lb)] + 41 * Len(frames)
PrintEdge ==
  (pos # bufEnd) \/ (EdgeHash % Sample # Salt) \/
  PrintT(<< "E", ToJson([frames |-> FramesJ, cuts |-> hist', ph |-> st.phase, rk |-> last'.res.kind]) >>)
=============================================================================
