------------------------------ MODULE Endpoint ------------------------------
(***************************************************************************)
(* GenericConnection<Role, PacketIdType> (src/mqtt/connection/core.rs) as  *)
(* a purely functional state machine: every public call is one operator    *)
(*        Op(st, args) -> [st |-> next state, out |-> returned event list] *)
(* structured like the implementation (one operator per process_send_* /   *)
(* process_recv_* / public call, same event order).  The module has no     *)
(* variables; MC_Endpoint wraps it into a transition system, Trace_Endpoint *)
(* runs it in lock-step with recorded behaviours, Pair composes two of     *)
(* them.  It models the INTENDED behaviour: the behaviour closest to the   *)
(* code that satisfies properties C05..C19.  Every place where that        *)
(* differs from the pinned commit is marked  (* DEV n *)  with the number  *)
(* of the finding in DESIGN.md section 6.                                  *)
(*                                                                         *)
(* Abstract packets, events and the state record have a UNIFORM shape (all *)
(* fields always present) so that the same records are produced by the     *)
(* harness from the real objects (NDJSON) and by this specification.       *)
(***************************************************************************)
EXTENDS Integers, Sequences, FiniteSets, Allocator

NoLimit == 268435461            \* MQTT_PACKET_SIZE_NO_LIMIT = 1 + 4 + 128^4
MaxId(idw) == IF idw = 32 THEN 2147483647 ELSE 65535    \* u32 clamped to TLC's int range

MinOf(S) == CHOOSE x \in S : \A y \in S : x <= y
SeqToSet(s) == { s[i] : i \in DOMAIN s }

(* ------------------------------------------------------------------ packets *)
\* kind : connect connack publish puback pubrec pubrel pubcomp subscribe suback
\*        unsubscribe unsuback pingreq pingresp disconnect auth | none | garbage
\* ver  : "v311" | "v50" | "other"
\* bad  : "" or the class of defect a peer-crafted frame carries (parse fails)
NoPkt == [kind |-> "none", ver |-> "none", pid |-> 0, qos |-> 0, dup |-> FALSE, retain |-> FALSE,
          topic |-> "", alias |-> 0, msg |-> "", rc |-> 0, sp |-> FALSE, clean |-> FALSE, ka |-> 0,
          rm |-> -1, tam |-> -1, mps |-> -1, sei |-> -1, ska |-> -1, size |-> 0, bad |-> ""]

Nibble(kind) ==
  CASE kind = "connect" -> 1 [] kind = "connack" -> 2 [] kind = "publish" -> 3 [] kind = "puback" -> 4
    [] kind = "pubrec" -> 5 [] kind = "pubrel" -> 6 [] kind = "pubcomp" -> 7 [] kind = "subscribe" -> 8
    [] kind = "suback" -> 9 [] kind = "unsubscribe" -> 10 [] kind = "unsuback" -> 11 [] kind = "pingreq" -> 12
    [] kind = "pingresp" -> 13 [] kind = "disconnect" -> 14 [] kind = "auth" -> 15 [] OTHER -> 0

(* Encoded size of the concrete packets the harness uses for an abstract packet:
   client id "c", one subscription entry "t1", payload = msg, no other optional fields.  *)
StrLen(s) == IF s = "" THEN 0 ELSE IF s = "m4xx" THEN 4 ELSE 2     \* topic / payload tags have 2 bytes ("m4xx": 4)
PidLen(idw) == IF idw = 32 THEN 4 ELSE 2
PropLen(p) ==
    (IF p.rm  >= 0 THEN 3 ELSE 0) + (IF p.tam >= 0 THEN 3 ELSE 0) + (IF p.mps >= 0 THEN 5 ELSE 0)
  + (IF p.sei >= 0 THEN 5 ELSE 0) + (IF p.ska >= 0 THEN 3 ELSE 0)
SizeOf(p, idw) ==
  LET v5 == p.ver = "v50"  pl == PidLen(idw) IN
  CASE p.kind = "connect"  -> IF v5 THEN 16 + PropLen(p) ELSE 15
    [] p.kind = "connack"  -> IF v5 THEN 5 + PropLen(p) ELSE 4
    [] p.kind = "publish"  -> 2 + 2 + StrLen(p.topic) + (IF p.qos > 0 THEN pl ELSE 0) + StrLen(p.msg)
                              + (IF v5 THEN 1 + (IF p.alias > 0 THEN 3 ELSE 0) ELSE 0)
    [] p.kind \in {"puback", "pubrec", "pubrel", "pubcomp"} -> 2 + pl + (IF v5 /\ p.rc # 0 THEN 1 ELSE 0)
    [] p.kind = "subscribe"   -> 2 + pl + 5 + (IF v5 THEN 1 ELSE 0)
    [] p.kind = "suback"      -> 2 + pl + 1 + (IF v5 THEN 1 ELSE 0)
    [] p.kind = "unsubscribe" -> 2 + pl + 4 + (IF v5 THEN 1 ELSE 0)
    [] p.kind = "unsuback"    -> 2 + pl + (IF v5 THEN 2 ELSE 0)
    [] p.kind \in {"pingreq", "pingresp"} -> 2
    [] p.kind = "disconnect"  -> 2 + (IF v5 /\ p.rc # 0 THEN 1 ELSE 0)
    [] p.kind = "auth"        -> 2
    [] OTHER -> p.size
Sized(p, idw) == [p EXCEPT !.size = SizeOf(p, idw)]

Pk(kind, ver) == [NoPkt EXCEPT !.kind = kind, !.ver = ver]
AckPkt(kind, ver, pid, rc, idw) == Sized([Pk(kind, ver) EXCEPT !.pid = pid, !.rc = rc], idw)
DisconnectPkt(rc) == [Pk("disconnect", "v50") EXCEPT !.rc = rc, !.size = IF rc # 0 THEN 3 ELSE 2]

(* ------------------------------------------------------------------- events *)
Ev(e) == [ev |-> e, pkt |-> NoPkt, rel |-> 0, id |-> 0, k |-> "", ms |-> 0, err |-> ""]
EvSend(p, rel)  == [Ev("send") EXCEPT !.pkt = p, !.rel = rel]
EvRecv(p)       == [Ev("recv") EXCEPT !.pkt = p]
EvRel(id)       == [Ev("released") EXCEPT !.id = id]
EvReset(k, ms)  == [Ev("timer_reset") EXCEPT !.k = k, !.ms = ms]
EvCancel(k)     == [Ev("timer_cancel") EXCEPT !.k = k]
EvErr(e)        == [Ev("error") EXCEPT !.err = e]
EvClose         == Ev("close")

R(s, o) == [st |-> s, out |-> o]
(* sequencing: run F on the state of r, append its events *)
Then(r, F(_)) == LET r2 == F(r.st) IN R(r2.st, r.out \o r2.out)

(* --------------------------------------------------------------- alias tables *)
\* sender table: lru = alias_to_topic (IndexMap order: least recently used first),
\* ord = order in which aliases were last (re)registered (topic_to_aliases[t] = ord filtered by t)
TaNone == [max |-> 0, lru |-> <<>>, ord |-> <<>>]
TaNew(m) == [max |-> m, lru |-> <<>>, ord |-> <<>>]
TaAliases(ta) == { ta.lru[i].a : i \in DOMAIN ta.lru }
TaTopicOf(ta, a) ==
  LET S == { i \in DOMAIN ta.lru : ta.lru[i].a = a }
  IN  IF S = {} THEN "" ELSE ta.lru[CHOOSE i \in S : TRUE].t
TaDrop(seq, a) == SelectSeq(seq, LAMBDA e : e.a # a)
TaInsert(ta, t, a) ==
  [ta EXCEPT !.lru = Append(TaDrop(@, a), [a |-> a, t |-> t]),
             !.ord = Append(SelectSeq(@, LAMBDA x : x # a), a)]
TaTouch(ta, a) ==                     \* TopicAliasSend::get moves the entry to the end
  [ta EXCEPT !.lru = Append(TaDrop(@, a), [a |-> a, t |-> TaTopicOf(ta, a)])]
TaFind(ta, t) ==                      \* find_by_topic: first registered alias of the topic, 0 if none
  LET S == { i \in DOMAIN ta.ord : TaTopicOf(ta, ta.ord[i]) = t }
  IN  IF S = {} THEN 0 ELSE ta.ord[MinOf(S)]
TaLruAlias(ta) ==                     \* get_lru_alias: first vacant alias, else the least recently used
  LET vac == (1 .. ta.max) \ TaAliases(ta)
  IN  IF vac # {} THEN MinOf(vac) ELSE ta.lru[1].a
TaRangeOk(ta, a) == ta.max > 0 /\ 1 <= a /\ a <= ta.max

\* receiver table: map = set of [a, t]
TrNone == [max |-> 0, map |-> {}]
TrNew(m) == [max |-> m, map |-> {}]
TrGet(tr, a) == LET S == { e \in tr.map : e.a = a } IN IF S = {} THEN "" ELSE (CHOOSE e \in S : TRUE).t
TrInsert(tr, t, a) == [tr EXCEPT !.map = { e \in @ : e.a # a } \cup { [a |-> a, t |-> t] }]

(* --------------------------------------------------------------------- state *)
New(role, ver, idw) ==
  [role |-> role, ver |-> ver, idw |-> idw,
   status |-> "disconnected", isClient |-> FALSE,
   pool |-> InitPool(1, MaxId(idw)),
   suback |-> {}, unsuback |-> {}, puback |-> {}, pubrec |-> {}, pubcomp |-> {},
   relPend |-> {},          (* DEV 24: QoS 2 ids between PUBREC received and PUBREL sent (no such set in the code) *)
   needStore |-> FALSE, store |-> <<>>,
   offline |-> FALSE, autoPub |-> FALSE, autoPing |-> FALSE, autoMap |-> FALSE, autoReplace |-> FALSE,
   taRecv |-> TrNone, taSend |-> TaNone,
   sendMax |-> 0, recvMax |-> 0, pubRecv |-> {},
   cnt |-> {},            \* ids of the outbound QoS>0 exchanges counted against the peer's Receive Maximum on
                          \* this connection; the code keeps only a counter (publish_send_count = |cnt|)
   mpsSend |-> NoLimit, mpsRecv |-> NoLimit,
   userMs |-> -1, kaMs |-> 0, skaMs |-> -1, prqTimeout |-> 0, prsTimeout |-> 0,
   qos2 |-> {}, tSend |-> FALSE, tRecv |-> FALSE, tResp |-> FALSE,
   partial |-> FALSE]

Used(s, pid) == IsUsed(s.pool, 1, MaxId(s.idw), pid)
UsedSet(s) == { x \in 1 .. 40 : Used(s, x) }      \* ids in use among 1..40 (all the checks ever use)

StoreIds(s) == { s.store[i].pid : i \in DOMAIN s.store }
StoreHas(s, pid) == pid \in StoreIds(s)
RespKind(p) == IF p.kind = "pubrel" THEN "pubcomp" ELSE IF p.qos = 2 THEN "pubrec" ELSE "puback"
StoreErase(store, resp, pid) == SelectSeq(store, LAMBDA e : ~(e.pid = pid /\ RespKind(e) = resp))
StoreErasePublish(store, pid) == SelectSeq(store, LAMBDA e : ~(e.pid = pid /\ e.kind = "publish"))
StoreHasPublish(store, pid) == \E i \in DOMAIN store : store[i].pid = pid /\ store[i].kind = "publish"

(* ---------------------------------------------------------- private helpers *)
PostSend(s) ==                                   \* send_post_process
  IF s.isClient
  THEN LET ms == IF s.userMs >= 0 THEN s.userMs ELSE IF s.skaMs >= 0 THEN s.skaMs ELSE s.kaMs
       IN  IF ms > 0 THEN R([s EXCEPT !.tSend = TRUE], << EvReset("pingreq_send", ms) >>) ELSE R(s, <<>>)
  ELSE R(s, <<>>)

CancelTimers(s) ==                               \* cancel_timers
  R([s EXCEPT !.tSend = FALSE, !.tRecv = FALSE, !.tResp = FALSE],
    (IF s.tSend THEN << EvCancel("pingreq_send") >> ELSE <<>>)
    \o (IF s.tRecv THEN << EvCancel("pingreq_recv") >> ELSE <<>>)
    \o (IF s.tResp THEN << EvCancel("pingresp_recv") >> ELSE <<>>))

RefreshRecv(s) ==                                \* refresh_pingreq_recv
  IF s.prqTimeout # 0 THEN R([s EXCEPT !.tRecv = TRUE], << EvReset("pingreq_recv", s.prqTimeout) >>) ELSE R(s, <<>>)

ReleaseIfUsed(s, pid) ==
  IF Used(s, pid) THEN R([s EXCEPT !.pool = Deallocate(@, pid)], << EvRel(pid) >>) ELSE R(s, <<>>)

Initialize(s, isClient) ==                       \* initialize()
  [s EXCEPT !.sendMax = 0, !.recvMax = 0, !.cnt = {}, !.taSend = TaNone, !.taRecv = TrNone,
            !.pubRecv = {}, !.needStore = s.offline,             (* DEV 26: the code forgets offline publishing *)
            !.suback = {}, !.unsuback = {}, !.isClient = isClient,
            !.kaMs = 0, !.skaMs = -1,
            !.prqTimeout = 0]                    (* DEV 11: the code leaves pingreq_recv_timeout_ms *)

ClearStoreRelated(s) ==                          \* clear_store_related()
  [s EXCEPT !.pool = InitPool(1, MaxId(s.idw)), !.puback = {}, !.pubrec = {}, !.pubcomp = {}, !.store = <<>>,
            !.relPend = {},
            !.qos2 = {}]                         (* DEV 9: the code keeps qos2_publish_handled *)

DecCount(s, pid) == [s EXCEPT !.cnt = @ \ {pid}]       (* DEV 5: the code subtracts from a counter that may be 0 *)

(* send_stored(): re-send every stored packet that fits, drop (and release) the others *)
RECURSIVE SendStoredFrom(_, _)
SendStoredFrom(s, i) ==
  IF i > Len(s.store)
  THEN R(IF s.sendMax > 0 THEN [s EXCEPT !.cnt = @ \cup s.relPend] ELSE s, <<>>)      (* DEV 28: exchanges awaiting PUBREL *)
  ELSE LET e == s.store[i] IN
       IF e.size > s.mpsSend
       THEN LET s1 == [s EXCEPT !.store = SelectSeq(@, LAMBDA x : x.pid # e.pid),
                                !.pool = IF Used(s, e.pid) THEN Deallocate(@, e.pid) ELSE @,
                                !.puback = @ \ {e.pid}, !.pubrec = @ \ {e.pid}, !.pubcomp = @ \ {e.pid}]   (* DEV 25 *)
                r == SendStoredFrom(s1, i)
            IN  R(r.st, << EvRel(e.pid) >> \o r.out)
       ELSE LET s1 == IF s.sendMax > 0 THEN [s EXCEPT !.cnt = @ \cup {e.pid}] ELSE s                        (* DEV 5 *)
                r == SendStoredFrom(s1, i + 1)
            IN  R(r.st, << EvSend(e, 0) >> \o r.out)
SendStored(s) ==
  LET r == SendStoredFrom(s, 1)
      sent == \E i \in DOMAIN r.out : r.out[i].ev = "send"
  IN  IF sent THEN Then(r, PostSend) ELSE r                                                                  (* DEV 23 *)

(* ------------------------------------------------------------------ send side *)
NotAllowed == "PacketNotAllowedToSend"
Opens(p) == (p.kind = "publish" /\ p.qos > 0) \/ p.kind \in {"subscribe", "unsubscribe"}

(* a refused send: only an error event, plus the release of the identifier of a packet that would have
   opened an exchange (DEV 10, DEV 20: the code releases only on the status refusals) *)
Refuse(s, p, err) ==
  IF Opens(p) THEN LET r == ReleaseIfUsed(s, p.pid) IN R(r.st, << EvErr(err) >> \o r.out)
  ELSE R(s, << EvErr(err) >>)

SendPlain(s, p, rel) == LET ps == PostSend(s) IN R(ps.st, << EvSend(p, rel) >> \o ps.out)

SendConnect(s, p) ==
  IF s.status # "disconnected" THEN R(s, << EvErr(NotAllowed) >>)
  ELSE LET s1 == [Initialize(s, TRUE) EXCEPT !.status = "connecting", !.kaMs = p.ka * 1000]
           s2 == IF p.clean THEN ClearStoreRelated(s1)
                 ELSE IF p.ver = "v311" THEN [s1 EXCEPT !.needStore = TRUE] ELSE s1
           s3 == IF p.ver = "v50"
                 THEN [s2 EXCEPT !.taRecv = IF p.tam > 0 THEN TrNew(p.tam) ELSE TrNone,
                                 !.recvMax = IF p.rm >= 0 THEN p.rm ELSE 0,
                                 !.mpsRecv = IF p.mps >= 0 THEN p.mps ELSE @,
                                 !.needStore = IF p.sei > 0 THEN TRUE ELSE @]
                 ELSE s2
       IN  SendPlain(s3, p, 0)

SendConnack(s, p) ==
  IF s.status # "connecting" THEN R(s, << EvErr(NotAllowed) >>)
  ELSE LET ok == p.rc = 0
           s1 == IF p.ver = "v50" /\ ok
                 THEN [s EXCEPT !.taRecv = IF p.tam > 0 THEN TrNew(p.tam) ELSE @,
                                !.recvMax = IF p.rm >= 0 THEN p.rm ELSE @,
                                !.mpsRecv = IF p.mps >= 0 THEN p.mps ELSE @]
                 ELSE s
           ka == IF p.ver = "v50" /\ ok /\ p.ska >= 0
                 THEN IF p.ska = 0
                      THEN R([s1 EXCEPT !.tRecv = FALSE, !.prqTimeout = 0],
                             IF s1.tRecv THEN << EvCancel("pingreq_recv") >> ELSE <<>>)
                      ELSE R([s1 EXCEPT !.tRecv = TRUE, !.prqTimeout = (p.ska * 1000 * 3) \div 2],
                             << EvReset("pingreq_recv", (p.ska * 1000 * 3) \div 2) >>)
                 ELSE R(s1, <<>>)
           s2 == ka.st
       IN  IF ~ok
           THEN LET c == CancelTimers([s2 EXCEPT !.status = "disconnected"])
                IN  R(c.st, ka.out \o << EvSend(p, 0) >> \o c.out \o << EvClose >>)
           ELSE LET st3 == [s2 EXCEPT !.status = "connected"]
                    ss == SendStoredFrom(st3, 1)
                    ps == PostSend(ss.st)
                IN  R(ps.st, ka.out \o << EvSend(p, 0) >> \o ss.out \o ps.out)

(* PUBLISH, both versions.  Order of the refusals follows the code where the code has one; the commit
   of effects happens only after every check has passed (DEV 12, DEV 13). *)
StoreCopy(s, p) ==                    \* what goes into the store: full topic, no alias, DUP set
  LET t == IF p.topic = "" THEN TaTopicOf(s.taSend, p.alias) ELSE p.topic
  IN  Sized([p EXCEPT !.topic = t, !.alias = 0, !.dup = TRUE], s.idw)

AutoAlias(s, p) ==                    \* returns [ta, pkt]
  LET ta == s.taSend IN
  IF s.status = "connected" /\ p.topic # "" /\ p.alias = 0 /\ ta.max > 0
  THEN IF s.autoMap
       THEN LET f == TaFind(ta, p.topic) IN
            IF f # 0 THEN [ta |-> ta, pkt |-> Sized([p EXCEPT !.topic = "", !.alias = f], s.idw)]
            ELSE LET a == TaLruAlias(ta) IN [ta |-> TaInsert(ta, p.topic, a), pkt |-> Sized([p EXCEPT !.alias = a], s.idw)]
       ELSE IF s.autoReplace
       THEN LET f == TaFind(ta, p.topic) IN
            IF f # 0 THEN [ta |-> ta, pkt |-> Sized([p EXCEPT !.topic = "", !.alias = f], s.idw)]
            ELSE [ta |-> ta, pkt |-> p]
       ELSE [ta |-> ta, pkt |-> p]
  ELSE [ta |-> ta, pkt |-> p]

SendPublish(s, p) ==
  LET q == p.qos > 0
      conn == s.status = "connected"
      aliasBad == IF p.topic = ""
                  THEN ~(p.alias # 0 /\ TaRangeOk(s.taSend, p.alias) /\ TaTopicOf(s.taSend, p.alias) # "")
                  ELSE p.alias # 0 /\ ~TaRangeOk(s.taSend, p.alias)
  IN
  IF q /\ ~conn /\ ~s.offline /\ (s.status = "disconnected" \/ ~s.needStore)                        (* DEV 7 *)
    THEN Refuse(s, p, NotAllowed)
  ELSE IF q /\ ~Used(s, p.pid) THEN R(s, << EvErr("PacketIdentifierInvalid") >>)
  ELSE IF ~q /\ ~conn THEN R(s, << EvErr(NotAllowed) >>)
  ELSE IF p.ver = "v50" /\ q /\ s.sendMax > 0 /\ Cardinality(s.cnt) >= s.sendMax                    (* DEV 5: >= *)
    THEN Refuse(s, p, "ReceiveMaximumExceeded")
  ELSE IF p.ver = "v50" /\ aliasBad THEN Refuse(s, p, NotAllowed)
  ELSE
    LET doStore == q /\ s.needStore
        s1 == IF doStore THEN [s EXCEPT !.store = Append(@, StoreCopy(s, p))] ELSE s
        s2 == IF q THEN (IF p.qos = 2 THEN [s1 EXCEPT !.pubrec = @ \cup {p.pid}] ELSE [s1 EXCEPT !.puback = @ \cup {p.pid}]) ELSE s1
        s3 == IF p.ver = "v50" /\ p.topic = "" THEN [s2 EXCEPT !.taSend = TaTouch(@, p.alias)]
              \* the binding is recorded only when the packet really goes out with it: a PUBLISH that is only stored while
              \* the handshake is running is re-sent later WITHOUT its alias (DEV 39)
              ELSE IF p.ver = "v50" /\ p.alias # 0 /\ conn THEN [s2 EXCEPT !.taSend = TaInsert(@, p.topic, p.alias)]
              ELSE s2
        au == IF p.ver = "v50" THEN AutoAlias(s3, p) ELSE [ta |-> s3.taSend, pkt |-> p]
        fits == au.pkt.size <= s3.mpsSend                                                          (* DEV 13 *)
        pk == IF fits THEN au.pkt ELSE p
        s4 == IF fits THEN [s3 EXCEPT !.taSend = au.ta] ELSE s3
        s5 == IF p.ver = "v50" /\ q /\ s4.sendMax > 0 /\ conn THEN [s4 EXCEPT !.cnt = @ \cup {p.pid}] ELSE s4   \* counted when sent
        rel == IF q /\ ~doStore THEN p.pid ELSE 0
    IN  IF conn THEN SendPlain(s5, pk, rel) ELSE R(s5, <<>>)

SendAck(s, p) ==                      \* PUBACK PUBREC PUBCOMP SUBACK UNSUBACK PINGRESP
  IF s.status # "connected" THEN R(s, << EvErr(NotAllowed) >>)
  ELSE LET s1 == IF p.ver = "v50" /\ p.kind \in {"puback", "pubcomp"} THEN [s EXCEPT !.pubRecv = @ \ {p.pid}]
                 ELSE IF p.ver = "v50" /\ p.kind = "pubrec" /\ p.rc >= 128
                      THEN [s EXCEPT !.pubRecv = @ \ {p.pid}, !.qos2 = @ \ {p.pid}]
                 ELSE s
       IN  SendPlain(s1, p, 0)

SendPubrel(s, p) ==
  IF s.status # "connected" /\ ~s.needStore THEN R(s, << EvErr(NotAllowed) >>)
  ELSE IF ~Used(s, p.pid) THEN R(s, << EvErr("PacketIdentifierInvalid") >>)
  ELSE LET s1 == IF s.needStore /\ ~StoreHas(s, p.pid) THEN [s EXCEPT !.store = Append(@, p)] ELSE s
           s2 == [s1 EXCEPT !.pubcomp = @ \cup {p.pid}, !.relPend = @ \ {p.pid}]                   (* DEV 8 *)
       IN  IF s.status = "connected" THEN SendPlain(s2, p, 0) ELSE R(s2, <<>>)                     (* DEV 8 *)

SendSubUnsub(s, p) ==
  IF s.status # "connected" THEN Refuse(s, p, NotAllowed)
  ELSE IF ~Used(s, p.pid) THEN R(s, << EvErr("PacketIdentifierInvalid") >>)
  ELSE SendPlain(IF p.kind = "subscribe" THEN [s EXCEPT !.suback = @ \cup {p.pid}]
                                         ELSE [s EXCEPT !.unsuback = @ \cup {p.pid}], p, p.pid)

SendPingreq(s, p) ==
  IF s.status # "connected" THEN R(s, << EvErr(NotAllowed) >>)
  ELSE LET r1 == IF s.prsTimeout # 0
                 THEN R([s EXCEPT !.tResp = TRUE], << EvSend(p, 0), EvReset("pingresp_recv", s.prsTimeout) >>)
                 ELSE R(s, << EvSend(p, 0) >>)
       IN  Then(r1, PostSend)

SendDisconnect(s, p) ==
  IF s.status # "connected" THEN R(s, << EvErr(NotAllowed) >>)
  ELSE LET c == CancelTimers([s EXCEPT !.status = "disconnected"])
       IN  R(c.st, c.out \o << EvSend(p, 0), EvClose >>)

SendAuth(s, p) ==
  IF s.status = "disconnected" THEN R(s, << EvErr(NotAllowed) >>) ELSE SendPlain(s, p, 0)

RoleCanSend(role, kind, ver) ==
  CASE kind \in {"connect", "subscribe", "unsubscribe", "pingreq"} -> role \in {"client", "any"}
    [] kind \in {"connack", "suback", "unsuback", "pingresp"}      -> role \in {"server", "any"}
    [] kind = "disconnect" -> ver = "v50" \/ role \in {"client", "any"}
    [] OTHER -> TRUE

TooLarge(s, p) == p.ver = "v50" /\ p.size > s.mpsSend      \* validate_maximum_packet_size_send

SendDispatch(s, p) ==                 \* the process_send_* functions (after the size check)
  CASE p.kind = "connect"    -> SendConnect(s, p)
    [] p.kind = "connack"    -> SendConnack(s, p)
    [] p.kind = "publish"    -> SendPublish(s, p)
    [] p.kind = "pubrel"     -> SendPubrel(s, p)
    [] p.kind \in {"subscribe", "unsubscribe"} -> SendSubUnsub(s, p)
    [] p.kind = "pingreq"    -> SendPingreq(s, p)
    [] p.kind = "disconnect" -> SendDisconnect(s, p)
    [] p.kind = "auth"       -> SendAuth(s, p)
    [] OTHER                 -> SendAck(s, p)

ProcessSend(s, p) == IF TooLarge(s, p) THEN Refuse(s, p, "PacketTooLarge") ELSE SendDispatch(s, p)

Send(s, p) ==                          \* pub fn send()
  IF s.ver # p.ver THEN Refuse(s, p, "VersionMismatch")
  ELSE IF ~RoleCanSend(s.role, p.kind, p.ver) THEN Refuse(s, p, NotAllowed)
  ELSE ProcessSend(s, p)

(* the gate as a predicate, for C11: is the packet handed to the transport / accepted for later? *)
SendAllowed(s, p) ==
  /\ s.ver = p.ver
  /\ RoleCanSend(s.role, p.kind, p.ver)
  /\ CASE p.kind = "connect" -> s.status = "disconnected"
       [] p.kind = "connack" -> s.status = "connecting"
       [] p.kind = "auth"    -> s.status # "disconnected"
       [] p.kind = "publish" /\ p.qos > 0 -> s.status = "connected" \/ s.offline \/ (s.status = "connecting" /\ s.needStore)
       [] p.kind = "pubrel"  -> s.status = "connected" \/ s.needStore
       [] OTHER -> s.status = "connected"

(* ---------------------------------------------------------------- error paths *)
HandleErr311(s, e) == R(s, << EvClose, EvErr(e) >>)        \* handle_v3_1_1_error

ErrCode(e) ==
  CASE e = "ProtocolError" -> 130 [] e = "MalformedPacket" -> 129 [] e = "ReceiveMaximumExceeded" -> 147
    [] e = "TopicAliasInvalid" -> 148 [] e = "PacketTooLarge" -> 149 [] e = "KeepAliveTimeout" -> 141
    [] OTHER -> 128

(* a DISCONNECT the library generates itself; when it does not fit the peer's Maximum Packet Size the
   transport is still closed (DEV 15: the code returns only an error and never asks for the close) *)
AutoDisconnect(s, rc) ==
  LET d == DisconnectPkt(rc) IN
  IF s.status = "connected" /\ TooLarge(s, d)
  THEN LET c == CancelTimers([s EXCEPT !.status = "disconnected"]) IN R(c.st, c.out \o << EvClose >>)
  ELSE ProcessSend(s, d)

HandleErr50(s, e) == LET r == AutoDisconnect(s, ErrCode(e)) IN R(r.st, r.out \o << EvErr(e) >>)   \* handle_v5_0_error

HandleErr(s, e) == IF s.ver = "v50" THEN HandleErr50(s, e) ELSE HandleErr311(s, e)
\* CONNACK and PUBLISH parse errors under v5.0: DISCONNECT only when connected
HandleErrSoft(s, e) ==
  IF s.ver = "v50" THEN (IF s.status = "connected" THEN HandleErr50(s, e) ELSE R(s, << EvErr(e) >>))
  ELSE HandleErr311(s, e)

(* --------------------------------------------------------------- receive side *)
SendAckAuto(s, kind, pid, rc) == ProcessSend(s, AckPkt(kind, s.ver, pid, rc, s.idw))

RecvDone(r, p) == LET f == RefreshRecv(r.st) IN R(f.st, r.out \o f.out \o << EvRecv(p) >>)

RecvConnect(s, p) ==
  IF s.status # "disconnected" THEN HandleErr(s, "ProtocolError")
  ELSE LET s0 == [s EXCEPT !.status = "connecting"] IN
       IF p.bad # "" \/ p.ver # s.ver
       THEN LET e == IF p.bad # "" THEN p.bad ELSE "UnsupportedProtocolVersion"
                rc == IF s.ver = "v50" THEN (IF p.bad = "" THEN 132 ELSE 128) ELSE (IF p.bad = "" THEN 1 ELSE 5)
                ck == Sized([Pk("connack", s.ver) EXCEPT !.rc = rc], s.idw)
                r == IF s.ver = "v50" THEN ProcessSend(s0, ck) ELSE SendConnack(s0, ck)
            IN  R(r.st, r.out \o << EvErr(e) >>)
       ELSE LET s1 == Initialize(s0, FALSE)
                s2 == IF p.ka > 0 THEN [s1 EXCEPT !.prqTimeout = (p.ka * 1000 * 3) \div 2] ELSE s1
                s3 == IF p.clean THEN ClearStoreRelated(s2)
                      ELSE IF p.ver = "v311" THEN [s2 EXCEPT !.needStore = TRUE] ELSE s2
                s4 == IF p.ver = "v50"
                      THEN [s3 EXCEPT !.taSend = IF p.tam > 0 THEN TaNew(p.tam) ELSE TaNone,            (* DEV 1 *)
                                      !.sendMax = IF p.rm >= 0 THEN p.rm ELSE 0,
                                      !.mpsSend = IF p.mps >= 0 THEN p.mps ELSE @,
                                      !.needStore = IF p.sei > 0 THEN TRUE ELSE @]
                      ELSE s3
            IN  RecvDone(R(s4, <<>>), p)

RecvConnack(s, p) ==
  IF p.bad # "" THEN HandleErrSoft(s, p.bad)
  ELSE IF s.status = "connected" THEN HandleErr(s, "ProtocolError")                                    (* DEV 6 *)
  ELSE IF p.rc # 0 THEN R(s, << EvRecv(p) >>)
  ELSE LET s1 == [s EXCEPT !.status = "connected"]
           s2 == IF p.ver = "v50"
                 THEN [s1 EXCEPT !.taSend = IF p.tam > 0 THEN TaNew(p.tam) ELSE @,
                                 !.sendMax = IF p.rm >= 0 THEN p.rm ELSE @,
                                 !.mpsSend = IF p.mps >= 0 THEN p.mps ELSE @,
                                 !.skaMs = IF p.ska >= 0 THEN p.ska * 1000 ELSE @]
                 ELSE s1
           ka == IF p.ver = "v50" /\ p.ska >= 0 /\ s2.userMs < 0
                 THEN IF p.ska = 0
                      THEN R([s2 EXCEPT !.tSend = FALSE], IF s2.tSend THEN << EvCancel("pingreq_send") >> ELSE <<>>)
                      ELSE R([s2 EXCEPT !.tSend = TRUE], << EvReset("pingreq_send", p.ska * 1000) >>)
                 ELSE R(s2, <<>>)
           s3 == IF p.ver = "v50" /\ p.sei >= 0
                 THEN IF p.sei = 0 THEN [ka.st EXCEPT !.needStore = ka.st.offline]                      (* DEV 22: no clear *)
                      ELSE [ka.st EXCEPT !.needStore = TRUE]
                 ELSE ka.st
           r == IF p.sp THEN SendStored(s3) ELSE R(ClearStoreRelated(s3), <<>>)
       IN  R(r.st, ka.out \o r.out \o << EvRecv(p) >>)

RecvPublish(s, p) ==
  IF p.bad # "" \/ (p.qos > 0 /\ p.pid = 0)                                                            (* DEV 2 *)
    THEN HandleErrSoft(s, IF p.bad # "" THEN p.bad ELSE "MalformedPacket")
  ELSE
  LET conn == s.status = "connected"
      v5 == s.ver = "v50"
      q == p.qos > 0
  IN
  IF v5 /\ q /\ s.recvMax > 0 /\ Cardinality(s.pubRecv) >= s.recvMax THEN HandleErr50(s, "ReceiveMaximumExceeded")
  \* the code counts the PUBLISH against the Receive Maximum before it validates the alias (the connection is closed
  \* right after, so nothing observable depends on it; modelled as the code does it to keep lock-step conformance exact)
  ELSE IF v5 /\ p.topic = "" /\ ~(p.alias # 0 /\ s.taRecv.max > 0 /\ p.alias <= s.taRecv.max /\ TrGet(s.taRecv, p.alias) # "")
    THEN HandleErr50(IF q THEN [s EXCEPT !.pubRecv = @ \cup {p.pid}] ELSE s, "TopicAliasInvalid")
  ELSE IF v5 /\ p.topic # "" /\ p.alias # 0 /\ ~(s.taRecv.max > 0 /\ p.alias <= s.taRecv.max)
    THEN HandleErr50(IF q THEN [s EXCEPT !.pubRecv = @ \cup {p.pid}] ELSE s, "TopicAliasInvalid")
  ELSE
  \* the notified packet carries the extracted topic name (and reports its size with it)
  LET pk == IF v5 /\ p.topic = "" THEN [p EXCEPT !.topic = TrGet(s.taRecv, p.alias), !.size = @ + StrLen(TrGet(s.taRecv, p.alias))] ELSE p
      s1 == IF v5 /\ p.topic # "" /\ p.alias # 0 THEN [s EXCEPT !.taRecv = TrInsert(@, p.topic, p.alias)] ELSE s
      s2 == IF v5 /\ q THEN [s1 EXCEPT !.pubRecv = @ \cup {p.pid}] ELSE s1
      already == p.qos = 2 /\ p.pid \in s.qos2
      s3 == IF p.qos = 2 THEN [s2 EXCEPT !.qos2 = @ \cup {p.pid}] ELSE s2                              (* DEV 19: after validation *)
      resp == IF p.qos = 1 /\ conn /\ s.autoPub THEN SendAckAuto(s3, "puback", p.pid, 0)
              ELSE IF p.qos = 2 /\ conn /\ (s.autoPub \/ already) THEN SendAckAuto(s3, "pubrec", p.pid, 0)
              ELSE R(s3, <<>>)
      f == RefreshRecv(resp.st)
  IN  R(f.st, resp.out \o f.out \o (IF already THEN <<>> ELSE << EvRecv(pk) >>))

RecvPuback(s, p) ==
  IF p.bad # "" \/ p.pid = 0 THEN HandleErr(s, IF p.bad # "" THEN p.bad ELSE "MalformedPacket")
  ELSE IF p.pid \notin s.puback THEN HandleErr(s, "ProtocolError")
  ELSE LET s1 == [s EXCEPT !.puback = @ \ {p.pid}, !.store = StoreErase(@, "puback", p.pid)]
           r == ReleaseIfUsed(s1, p.pid)
           s2 == IF s.ver = "v50" THEN DecCount(r.st, p.pid) ELSE r.st
       IN  RecvDone(R(s2, r.out), p)

RecvPubrec(s, p) ==
  IF p.bad # "" \/ p.pid = 0 THEN HandleErr(s, IF p.bad # "" THEN p.bad ELSE "MalformedPacket")
  ELSE IF p.pid \notin s.pubrec THEN HandleErr(s, "ProtocolError")
  ELSE LET s1 == [s EXCEPT !.pubrec = @ \ {p.pid}, !.store = StoreErase(@, "pubrec", p.pid)]
       IN  IF s.ver = "v50" /\ p.rc >= 128
           THEN LET r == ReleaseIfUsed(s1, p.pid) IN RecvDone(R(DecCount(r.st, p.pid), r.out), p)
           ELSE LET s2 == [s1 EXCEPT !.relPend = @ \cup {p.pid}]                                      (* DEV 24 *)
                    r == IF s.autoPub /\ s.status = "connected"
                         THEN ProcessSend(s2, AckPkt("pubrel", s.ver, p.pid, 0, s.idw)) ELSE R(s2, <<>>)
                IN  RecvDone(r, p)

RecvPubrel(s, p) ==
  IF p.bad # "" \/ p.pid = 0 THEN HandleErr(s, IF p.bad # "" THEN p.bad ELSE "MalformedPacket")
  ELSE LET removed == p.pid \in s.qos2
           s1 == [s EXCEPT !.qos2 = @ \ {p.pid}]
           r == IF s.autoPub /\ s.status = "connected"
                THEN SendAckAuto(s1, "pubcomp", p.pid, IF s.ver = "v50" /\ ~removed THEN 146 ELSE 0)
                ELSE R(s1, <<>>)
       IN  RecvDone(r, p)

RecvPubcomp(s, p) ==
  IF p.bad # "" \/ p.pid = 0 THEN HandleErr(s, IF p.bad # "" THEN p.bad ELSE "MalformedPacket")
  ELSE IF p.pid \notin s.pubcomp THEN HandleErr(s, "ProtocolError")
  ELSE LET s1 == [s EXCEPT !.pubcomp = @ \ {p.pid}, !.store = StoreErase(@, "pubcomp", p.pid)]
           r == ReleaseIfUsed(s1, p.pid)
           s2 == IF s.ver = "v50" THEN DecCount(r.st, p.pid) ELSE r.st
       IN  RecvDone(R(s2, r.out), p)

RecvSubAck(s, p) ==                    \* SUBACK / UNSUBACK
  IF p.bad # "" \/ p.pid = 0 THEN HandleErr(s, IF p.bad # "" THEN p.bad ELSE "MalformedPacket")
  ELSE LET set == IF p.kind = "suback" THEN s.suback ELSE s.unsuback IN
       IF p.pid \notin set THEN HandleErr(s, "ProtocolError")
       ELSE LET s1 == IF p.kind = "suback" THEN [s EXCEPT !.suback = @ \ {p.pid}] ELSE [s EXCEPT !.unsuback = @ \ {p.pid}]
                r == ReleaseIfUsed(s1, p.pid)
            IN  RecvDone(r, p)

RecvPlain(s, p) ==                     \* SUBSCRIBE UNSUBSCRIBE AUTH
  IF p.bad # "" \/ (p.kind \in {"subscribe", "unsubscribe"} /\ p.pid = 0)                               (* DEV 21 *)
    THEN HandleErr(s, IF p.bad # "" THEN p.bad ELSE "MalformedPacket")
  ELSE RecvDone(R(s, <<>>), p)

RecvPingreq(s, p) ==
  IF p.bad # "" THEN HandleErr(s, p.bad)
  ELSE LET r == IF s.role \in {"server", "any"} /\ ~s.isClient /\ s.autoPing /\ s.status = "connected"
                THEN ProcessSend(s, Sized(Pk("pingresp", s.ver), s.idw)) ELSE R(s, <<>>)
       IN  RecvDone(r, p)

RecvPingresp(s, p) ==
  IF p.bad # "" THEN HandleErr(s, p.bad)
  ELSE R([s EXCEPT !.tResp = FALSE], (IF s.tResp THEN << EvCancel("pingresp_recv") >> ELSE <<>>) \o << EvRecv(p) >>)

RecvDisconnect(s, p) ==
  IF p.bad # "" THEN HandleErr(s, p.bad)
  ELSE LET c == CancelTimers(s) IN R(c.st, c.out \o << EvRecv(p) >>)

CanReceive(s, nib) ==
  ~( (s.role = "client" /\ (nib \in {1, 8, 10, 12} \/ (nib \in {14, 15} /\ s.ver = "v311")))
     \/ (s.role = "server" /\ (nib \in {2, 9, 11, 13} \/ (nib = 15 /\ s.ver = "v311"))) )

RecvByKind(s, p) ==
  CASE p.kind = "connect"    -> RecvConnect(s, p)
    [] p.kind = "connack"    -> RecvConnack(s, p)
    [] p.kind = "publish"    -> RecvPublish(s, p)
    [] p.kind = "puback"     -> RecvPuback(s, p)
    [] p.kind = "pubrec"     -> RecvPubrec(s, p)
    [] p.kind = "pubrel"     -> RecvPubrel(s, p)
    [] p.kind = "pubcomp"    -> RecvPubcomp(s, p)
    [] p.kind \in {"suback", "unsuback"} -> RecvSubAck(s, p)
    [] p.kind = "pingreq"    -> RecvPingreq(s, p)
    [] p.kind = "pingresp"   -> RecvPingresp(s, p)
    [] p.kind = "disconnect" -> RecvDisconnect(s, p)
    [] p.kind \in {"subscribe", "unsubscribe", "auth"} -> RecvPlain(s, p)
    [] OTHER -> R(s, << EvErr("MalformedPacket") >>)

(* process_recv_packet: one complete frame.  p.kind = "garbage" stands for reserved type nibble 0. *)
RecvFrame(s, p) ==
  LET nib == Nibble(p.kind) IN
  IF p.size > s.mpsRecv
  THEN LET r == AutoDisconnect(s, 149) IN R(r.st, r.out \o << EvErr("PacketTooLarge") >>)
  ELSE IF ~CanReceive(s, nib) THEN R(s, << EvErr("ProtocolError") >>)
  ELSE IF s.ver = "undet"
  THEN IF p.kind # "connect" THEN R(s, << EvErr("MalformedPacket") >>)
       ELSE IF p.bad = "short" THEN R(s, << EvErr("MalformedPacket") >>)
       ELSE IF p.ver \notin {"v311", "v50"} THEN R(s, << EvErr("UnsupportedProtocolVersion") >>)
       ELSE RecvConnect([s EXCEPT !.ver = p.ver], p)
  ELSE IF p.kind = "auth" /\ s.ver = "v311" THEN R(s, << EvErr("MalformedPacket") >>)
  ELSE RecvByKind(s, p)

(* a framing error (Remaining Length longer than four bytes) *)
RecvFramingError(s) ==
  LET c == CancelTimers([s EXCEPT !.partial = FALSE]) IN R(c.st, c.out \o << EvClose, EvErr("MalformedPacket") >>)

(* a chunk that does not complete a frame *)
RecvPartial(s) == R([s EXCEPT !.partial = TRUE], <<>>)
(* the chunk that completes the frame *)
RecvComplete(s, p) == RecvFrame([s EXCEPT !.partial = FALSE], p)

(* -------------------------------------------------------------- other calls *)
TimerFired(s, k) ==
  CASE k = "pingreq_send" ->
         LET s1 == [s EXCEPT !.tSend = FALSE] IN
         IF s1.status = "connected" THEN ProcessSend(s1, Sized(Pk("pingreq", s1.ver), s1.idw)) ELSE R(s1, <<>>)
    [] OTHER ->
         LET s1 == IF k = "pingreq_recv" THEN [s EXCEPT !.tRecv = FALSE] ELSE [s EXCEPT !.tResp = FALSE] IN
         IF s1.ver = "v311" THEN R(s1, << EvClose >>)
         ELSE IF s1.status = "connected" THEN AutoDisconnect(s1, 141)
         ELSE R(s1, <<>>)

ReleaseAll(s, ids) ==                  \* events in unspecified (hash) order: compared as sets
  LET RECURSIVE Go(_, _)
      Go(st, rest) == IF rest = {} THEN R(st, <<>>)
                      ELSE LET x == MinOf(rest)
                               r == ReleaseIfUsed(st, x)
                               r2 == Go(r.st, rest \ {x})
                           IN  R(r2.st, r.out \o r2.out)
  IN  Go(s, ids)

NotifyClosed(s) ==
  LET s1 == [s EXCEPT !.mpsSend = NoLimit, !.mpsRecv = NoLimit, !.status = "disconnected",
                      !.taSend = TaNone, !.taRecv = TrNone, !.partial = FALSE]                          (* DEV 4 *)
      r1 == ReleaseAll([s1 EXCEPT !.suback = {}, !.unsuback = {}], s1.suback \cup s1.unsuback)
      r2 == IF ~s1.needStore
            THEN ReleaseAll([r1.st EXCEPT !.qos2 = {}, !.puback = {}, !.pubrec = {}, !.pubcomp = {}, !.relPend = {},
                                          !.store = <<>>],      (* DEV 27: the code leaves stale packets in the store *)
                            r1.st.puback \cup r1.st.pubrec \cup r1.st.pubcomp \cup r1.st.relPend)
            ELSE R(r1.st, <<>>)
      c == CancelTimers(r2.st)
  IN  R(c.st, r1.out \o r2.out \o c.out)

SetInterval(s, v) ==                   \* set_pingreq_send_interval(Some(v) | None = -1)
  LET s1 == [s EXCEPT !.userMs = v] IN
  IF v = 0 THEN R([s1 EXCEPT !.tSend = FALSE], IF s.tSend THEN << EvCancel("pingreq_send") >> ELSE <<>>)
  ELSE IF v > 0 /\ s.status = "connected" THEN R([s1 EXCEPT !.tSend = TRUE], << EvReset("pingreq_send", v) >>)
  ELSE R(s1, <<>>)

SetOpt(s, name, b) ==
  CASE name = "offline"      -> [s EXCEPT !.offline = b, !.needStore = IF b THEN TRUE ELSE @]
    [] name = "auto_pub"     -> [s EXCEPT !.autoPub = b]
    [] name = "auto_ping"    -> [s EXCEPT !.autoPing = b]
    [] name = "auto_map"     -> [s EXCEPT !.autoMap = b]
    [] name = "auto_replace" -> [s EXCEPT !.autoReplace = b]

Acquire(s) == LET a == Allocate(s.pool) IN [st |-> [s EXCEPT !.pool = a.pool], ok |-> a.ok, id |-> a.val]
Register(s, pid) == LET u == UseValue(s.pool, pid) IN [st |-> [s EXCEPT !.pool = u.pool], ok |-> u.ok]
Release(s, pid) == ReleaseIfUsed(s, pid)

EraseStoredPublish(s, pid) ==
  IF StoreHasPublish(s.store, pid)
  THEN LET s1 == DecCount([s EXCEPT !.store = StoreErasePublish(@, pid), !.puback = @ \ {pid}, !.pubrec = @ \ {pid}], pid)
       IN  ReleaseIfUsed(s1, pid)
  ELSE R(s, <<>>)

RECURSIVE RestoreFrom(_, _, _)
RestoreFrom(s, pkts, i) ==
  IF i > Len(pkts) THEN s
  ELSE LET e == pkts[i] IN
       IF e.kind = "publish" /\ e.qos = 0 THEN RestoreFrom(s, pkts, i + 1)          \* QoS 0 entry: skipped
       ELSE LET u == UseValue(s.pool, e.pid) IN
            IF ~u.ok \/ StoreHas(s, e.pid) THEN RestoreFrom(s, pkts, i + 1)         \* identifier already in use: skipped,
            ELSE LET s1 == [s EXCEPT !.pool = u.pool, !.store = Append(@, e)]       \* WITHOUT a trace (DEV 37)
                     s2 == IF e.kind = "pubrel" THEN [s1 EXCEPT !.pubcomp = @ \cup {e.pid}]
                           ELSE IF e.qos = 2 THEN [s1 EXCEPT !.pubrec = @ \cup {e.pid}]
                           ELSE [s1 EXCEPT !.puback = @ \cup {e.pid}]
                 IN  RestoreFrom(s2, pkts, i + 1)
RestorePackets(s, pkts) == RestoreFrom(s, pkts, 1)

(* regulate_for_store(p): the form a v5.0 PUBLISH takes in the store - full topic, no Topic Alias property.  A pure query:
   the alias table is only peeked at (no LRU touch).  An alias-only PUBLISH whose alias is unknown cannot be regulated. *)
Regulate(s, p) ==
  IF p.topic # "" THEN [ok |-> TRUE, pkt |-> Sized([p EXCEPT !.alias = 0], s.idw)]
  ELSE LET t == IF p.alias # 0 /\ s.taSend.max > 0 THEN TaTopicOf(s.taSend, p.alias) ELSE "" IN
       IF t = "" THEN [ok |-> FALSE, pkt |-> p]
       ELSE [ok |-> TRUE, pkt |-> Sized([p EXCEPT !.topic = t, !.alias = 0], s.idw)]
RestoreQos2(s, ids) == [s EXCEPT !.qos2 = ids]

SendCount(s) == Cardinality(s.cnt)
Vacancy(s) == IF s.sendMax = 0 THEN -1 ELSE IF s.sendMax > SendCount(s) THEN s.sendMax - SendCount(s) ELSE 0
=============================================================================
