\* generated by lib/slices.py from slice 'reuse_s' - do not edit
SPECIFICATION Spec
VIEW view
CHECK_DEADLOCK FALSE
PROPERTY NoViolation
ACTION_CONSTRAINT PrintEdge
CONSTANTS
 Roles = {"any", "server"}
 Vers = {"v311", "v50"}
 Idws = {16}
 CheckProps = {"C05", "C06", "C07", "C08", "C10", "C11", "C12", "C13", "C14", "C15", "C16", "C17", "C19"}
 OptSets = {{}}
 RespTimeouts = {0}
 MaxConns = 2
 MaxHeld = 1
 MaxUsed = 1
 AppKinds = {"disconnect", "publish"}
 PeerKinds = {"disconnect", "publish", "subscribe"}
 QosSet = {2}
 Topics = {"t1"}
 Aliases = {0, 1}
 InPids = {1}
 ExtraPids = {9}
 Rcs = {0}
 Cleans = {TRUE}
 KAs = {0, 10}
 ConnRMs = {1, 99999}
 ConnTAMs = {1, 99999}
 ConnMPSs = {13, 99999}
 ConnSEIs = {99999}
 SPs = {FALSE}
 ConnackRcs = {0}
 AckRMs = {99999}
 AckTAMs = {1, 99999}
 AckMPSs = {99999}
 AckSEIs = {99999}
 SKAs = {5, 99999}
 RogueHandshake = FALSE
 PartialFrames = TRUE
 Intervals = {}
 Fire = TRUE
 Close = TRUE
 Erase = FALSE
 IdOps = FALSE
 Crash = FALSE
 Garbage = FALSE
 BadFrames = {}
 SendWhileDisc = FALSE
 PeerWhileDisc = FALSE
 LateFrames = FALSE
 CrossVersion = FALSE
 Restore = FALSE
 Regulate_ = FALSE
 OptFlips = {}
 FreeIdSends = FALSE
 LateSends = FALSE
 Msgs = {"m1"}
