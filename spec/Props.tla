------------------------------- MODULE Props -------------------------------
(***************************************************************************)
(* The connection-level properties C05..C08, C10..C17, C19 as predicates    *)
(* over ONE STEP of an observed behaviour:                                  *)
(*     g    ghost before the step (history variables, see GhostStep)        *)
(*     prev the previous step record of the same object                     *)
(*     r    this step record  [call, out, obs, dig, panic, outF, shadow]    *)
(*     g2   ghost after the step = GhostStep(g, prev, r)                    *)
(* Every ghost is a function of the LOGGED history only (calls, returned    *)
(* events, public getters); none reads the specification's state.  The same *)
(* operators judge TLC-explored behaviours of Endpoint.tla (MC_Endpoint:    *)
(* shows the predicates are satisfiable by a complete design, and which     *)
(* ones a broken design falsifies) and recorded behaviours of the real code *)
(* (Trace_Endpoint: the verdict).                                           *)
(*                                                                          *)
(* Viol<id>(g, prev, r, g2) = the set of names of the clauses of property   *)
(* <id> that are FALSE at this step.                                        *)
(***************************************************************************)
EXTENDS Endpoint, SequencesExt, TLC

NoCall == [op |-> "none", pkt |-> NoPkt, pkts |-> <<>>, ids |-> <<>>, k |-> "", id |-> 0, val |-> 0,
           flag |-> FALSE, name |-> "", role |-> "", ver |-> "", idw |-> 16, ok |-> TRUE]

SortedSeq(S) == SetToSortSeq(S, LAMBDA a, b : a < b)

(* ---------------------------------------------- observation of a spec state *)
ObsOf(s) == [vacancy |-> Vacancy(s), stored |-> s.store, qos2 |-> SortedSeq(s.qos2), ver |-> s.ver]

DigOf(s) ==
  [status |-> s.status, ver |-> s.ver, isClient |-> s.isClient,
   used |-> SortedSeq(UsedSet(s)),
   suback |-> SortedSeq(s.suback), unsuback |-> SortedSeq(s.unsuback), puback |-> SortedSeq(s.puback),
   pubrec |-> SortedSeq(s.pubrec), pubcomp |-> SortedSeq(s.pubcomp),
   needStore |-> s.needStore, storeIds |-> [i \in DOMAIN s.store |-> s.store[i].pid],
   offline |-> s.offline, autoPub |-> s.autoPub, autoPing |-> s.autoPing, autoMap |-> s.autoMap,
   autoReplace |-> s.autoReplace,
   taSendMax |-> s.taSend.max, taSend |-> s.taSend.lru,
   taRecvMax |-> s.taRecv.max,
   taRecv |-> LET as == { e.a : e \in s.taRecv.map } IN
              [i \in 1..Cardinality(as) |-> [a |-> SortedSeq(as)[i], t |-> TrGet(s.taRecv, SortedSeq(as)[i])]],
   sendMax |-> s.sendMax, recvMax |-> s.recvMax, sendCount |-> SendCount(s), pubRecv |-> SortedSeq(s.pubRecv),
   mpsSend |-> s.mpsSend, mpsRecv |-> s.mpsRecv,
   userMs |-> s.userMs, kaMs |-> s.kaMs, skaMs |-> s.skaMs, prqTimeout |-> s.prqTimeout,
   prsTimeout |-> s.prsTimeout, qos2 |-> SortedSeq(s.qos2),
   tSend |-> s.tSend, tRecv |-> s.tRecv, tResp |-> s.tResp, partial |-> s.partial]

(* ------------------------------------------------------ helpers over events *)
Sends(out)         == SelectSeq(out, LAMBDA e : e.ev = "send")
SendsK(out, K)     == SelectSeq(out, LAMBDA e : e.ev = "send" /\ e.pkt.kind \in K)
RecvsK(out, K)     == SelectSeq(out, LAMBDA e : e.ev = "recv" /\ e.pkt.kind \in K)
Recvs(out)         == SelectSeq(out, LAMBDA e : e.ev = "recv")
HasErr(out)        == \E i \in DOMAIN out : out[i].ev = "error"
HasErrNamed(out, N) == \E i \in DOMAIN out : out[i].ev = "error" /\ out[i].err \in N
HasClose(out)      == \E i \in DOMAIN out : out[i].ev = "close"
RelSeq(out)        == LET s == SelectSeq(out, LAMBDA e : e.ev = "released") IN [i \in DOMAIN s |-> s[i].id]
RelSet(out)        == SeqToSet(RelSeq(out))
SentPid(out, K, pid) == \E i \in DOMAIN out : out[i].ev = "send" /\ out[i].pkt.kind \in K /\ out[i].pkt.pid = pid
RecvdPid(out, K, pid) == \E i \in DOMAIN out : out[i].ev = "recv" /\ out[i].pkt.kind \in K /\ out[i].pkt.pid = pid
HasReset(out, k, ms) == \E i \in DOMAIN out : out[i].ev = "timer_reset" /\ out[i].k = k /\ out[i].ms = ms
HasResetK(out, k)  == \E i \in DOMAIN out : out[i].ev = "timer_reset" /\ out[i].k = k
HasCancel(out, k)  == \E i \in DOMAIN out : out[i].ev = "timer_cancel" /\ out[i].k = k

(* ------------------------------------------------------- classification of r *)
Op(r) == r.call.op
CP(r) == r.call.pkt
IsSend(r, K) == Op(r) = "send" /\ CP(r).kind \in K
(* a recv call that handed one complete, well-formed frame of kind K to the connection *)
IsRecv(r, K) == Op(r) = "recv" /\ CP(r).kind \in K /\ CP(r).bad = ""
ConnectSent(r)  == IsSend(r, {"connect"}) /\ SendsK(r.out, {"connect"}) # <<>>
ConnectRecvd(r) == Op(r) = "recv" /\ RecvsK(r.out, {"connect"}) # <<>>
Connect(r)      == ConnectSent(r) \/ ConnectRecvd(r)
ConnPkt(r)      == IF ConnectSent(r) THEN CP(r) ELSE RecvsK(r.out, {"connect"})[1].pkt
ConnackRecvdOk(r) == Op(r) = "recv" /\ \E i \in DOMAIN r.out : r.out[i].ev = "recv" /\ r.out[i].pkt.kind = "connack" /\ r.out[i].pkt.rc = 0
ConnackRecvdPkt(r) == RecvsK(r.out, {"connack"})[1].pkt
ConnackSentOk(r)   == IsSend(r, {"connack"}) /\ CP(r).rc = 0 /\ SendsK(r.out, {"connack"}) # <<>>
ConnackSentFail(r) == \E i \in DOMAIN r.out : r.out[i].ev = "send" /\ r.out[i].pkt.kind = "connack" /\ r.out[i].pkt.rc # 0
DisconnectSent(r)  == SendsK(r.out, {"disconnect"}) # <<>>
NewSession(r) ==
  \/ Connect(r) /\ ConnPkt(r).clean
  \/ ConnackRecvdOk(r) /\ ~ConnackRecvdPkt(r).sp
(* the step in which a session-present handshake completes and stored packets must be re-sent *)
ResumeStep(r) == (ConnackRecvdOk(r) /\ ConnackRecvdPkt(r).sp) \/ (ConnackSentOk(r) /\ CP(r).sp)
(* the step in which a handshake completes; stored packets are re-sent in it (always by a server) *)
HandshakeDone(r) == ConnackRecvdOk(r) \/ ConnackSentOk(r)
Accepted(r) == ~HasErr(r.out) /\ ~r.panic

(* ------------------------------------------------------------------- ghost *)
G0 == [role |-> "", ver |-> "", idw |-> 16,
       tr |-> FALSE, closeReq |-> FALSE, conn |-> "disc", client |-> FALSE, nconn |-> 0, everClosed |-> FALSE,
       persistent |-> FALSE, offline |-> FALSE, autoPub |-> FALSE,
       armed |-> {}, used |-> {}, held |-> {}, sub |-> {}, unsub |-> {},
       await |-> {},                      \* [pid, kind]: expected next acknowledgement of an outbound exchange
       handled |-> {},                    \* inbound QoS 2 ids notified and not yet released by PUBREL
       inflight |-> {},                   \* [pid, tag]: outbound exchanges of THIS connection (C12)
       inUn |-> {},                       \* inbound QoS>0 ids not yet answered on this connection (C12e)
       peerRM |-> 0, ownRM |-> 0, peerTAM |-> 0, ownTAM |-> 0, peerMPS |-> NoLimit, ownMPS |-> NoLimit,
       rx |-> {}, aliasIn |-> {},         \* [a, t]: the receiver's table of what we sent / of what we received
       dropped |-> {},                    \* ids whose stored packet the library dropped as oversize when this connection was
                                          \* (re)established - no clause reads it; it keeps "a PUBREL was dropped here" apart
                                          \* from "nothing was pending" in the model's state so that BOTH are continued
       twinOff |-> FALSE,                 \* the checked_send twin has diverged on this history (reported once, then ignored)
       aliasHist |-> {},                  \* every inbound binding [a, t] made on this connection - no clause reads it; it keeps
                                          \* "bound to t2, then re-bound to t1" apart from "bound to t1" in the model's state, so
                                          \* that both histories are continued (an implementation that misses the re-binding
                                          \* differs only on the first one)
       ka |-> 0, ska |-> -1, user |-> -1, respTimeout |-> 0,
       echo |-> <<>>,                     \* shape of the last send if it was refused (error only, nothing sent or delivered): keeps the
                                          \* state after a refused call distinct for ONE step, so that the transition
                                          \* cover also contains "refused call, then X" histories
       skew |-> 0,                        \* observed - expected vacancy after a reported C12a violation (re-synchronisation)
       newSess |-> FALSE,                 \* a new session has started on the current connection (C10)
       shadow |-> "none"]

MapGet(m, a) == LET S == { e \in m : e.a = a } IN IF S = {} THEN "" ELSE (CHOOSE e \in S : TRUE).t
MapPut(m, a, t) == { e \in m : e.a # a } \cup { [a |-> a, t |-> t] }
AwaitOf(g, pid) == LET S == { e \in g.await : e.pid = pid } IN IF S = {} THEN "" ELSE (CHOOSE e \in S : TRUE).kind
AwaitDrop(aw, pid) == { e \in aw : e.pid # pid }
AwaitPut(aw, pid, k) == AwaitDrop(aw, pid) \cup { [pid |-> pid, kind |-> k] }

(* timers armed after processing an event list in order *)
RECURSIVE ArmedAfter(_, _, _)
ArmedAfter(a, out, i) ==
  IF i > Len(out) THEN a
  ELSE ArmedAfter(IF out[i].ev = "timer_reset" THEN a \cup {out[i].k}
                  ELSE IF out[i].ev = "timer_cancel" THEN a \ {out[i].k} ELSE a, out, i + 1)

(* the receiver's alias table after the PUBLISH packets of an event list, in order *)
RECURSIVE RxAfter(_, _, _)
RxAfter(rx, out, i) ==
  IF i > Len(out) THEN rx
  ELSE RxAfter(IF out[i].ev = "send" /\ out[i].pkt.kind = "publish" /\ out[i].pkt.topic # "" /\ out[i].pkt.alias # 0
               THEN MapPut(rx, out[i].pkt.alias, out[i].pkt.topic) ELSE rx, out, i + 1)

StoredAwait(stored) ==
  { [pid |-> stored[i].pid, kind |-> RespKind(stored[i])] : i \in DOMAIN stored }

GhostStep(g, prev, r) ==
  LET op == Op(r)  p == CP(r)  out == r.out
      isConn == Connect(r)
      cp == IF isConn THEN ConnPkt(r) ELSE NoPkt
      ckOk == ConnackRecvdOk(r)
      ck == IF ckOk THEN ConnackRecvdPkt(r) ELSE NoPkt
      newS == NewSession(r)
      rel == RelSet(out)
      v5 == g.ver = "v50" \/ (isConn /\ cp.ver = "v50")
      (* --- connection tracking --- *)
      closed == op \in {"closed", "crash"}
      conn2 == IF closed THEN "disc"
               ELSE IF DisconnectSent(r) \/ ConnackSentFail(r) THEN "disc"
               ELSE IF isConn THEN "connecting"
               ELSE IF ckOk \/ ConnackSentOk(r) THEN "connected"
               ELSE g.conn
      persistent2 == IF op = "opt" /\ r.call.name = "offline" /\ r.call.flag THEN TRUE
                     ELSE IF isConn THEN g.offline \/ (IF cp.ver = "v311" THEN ~cp.clean ELSE cp.sei > 0)
                     ELSE IF ckOk /\ ck.ver = "v50" /\ ck.sei >= 0 THEN g.offline \/ ck.sei > 0
                     ELSE g.persistent
      armed0 == IF op = "fire" THEN g.armed \ {r.call.k} ELSE g.armed
      (* --- identifiers --- *)
      used1 == IF newS THEN {} ELSE g.used
      used2 == used1 \cup (IF op = "acquire" /\ r.call.ok THEN {r.call.id} ELSE {})
                     \cup (IF op = "register" /\ r.call.ok THEN {r.call.id} ELSE {})
                     \cup (IF op = "restore" THEN { r.obs.stored[i].pid : i \in DOMAIN r.obs.stored } ELSE {})
      held1 == IF newS \/ op = "crash" THEN {} ELSE g.held
      held2 == (held1 \cup (IF op \in {"acquire", "register"} /\ r.call.ok THEN {r.call.id} ELSE {}))
               \ (rel \cup (IF op = "send" /\ Opens(p) THEN {p.pid} ELSE {}))
      (* --- outbound exchanges --- *)
      aw0 == IF newS THEN {} ELSE IF closed /\ ~g.persistent THEN {}
             ELSE IF op = "restore" THEN StoredAwait(r.obs.stored) ELSE g.await
      aw1 == IF IsSend(r, {"publish"}) /\ p.qos > 0 /\ Accepted(r)
             THEN AwaitPut(aw0, p.pid, IF p.qos = 2 THEN "pubrec" ELSE "puback") ELSE aw0
      aw2 == IF IsRecv(r, {"puback", "pubcomp"}) /\ RecvdPid(out, {p.kind}, p.pid) THEN AwaitDrop(aw1, p.pid)
             ELSE IF IsRecv(r, {"pubrec"}) /\ RecvdPid(out, {"pubrec"}, p.pid)
                  THEN (IF p.rc >= 128 THEN AwaitDrop(aw1, p.pid) ELSE AwaitPut(aw1, p.pid, "pubrel"))
             ELSE aw1
      aw3 == LET rs == SendsK(out, {"pubrel"}) IN      \* a PUBREL sent (by the application or automatically)
             IF rs # <<>> /\ ~HandshakeDone(r) THEN AwaitPut(aw2, rs[1].pkt.pid, "pubcomp")
             ELSE IF IsSend(r, {"pubrel"}) /\ Accepted(r) THEN AwaitPut(aw2, p.pid, "pubcomp")
             ELSE aw2
      aw4 == { e \in aw3 : e.pid \notin (IF op \in {"erase", "release"} \/ HandshakeDone(r) THEN rel ELSE {}) }
      (* --- inbound QoS 2 --- *)
      h0 == IF newS THEN {} ELSE IF closed /\ ~g.persistent THEN {}
            ELSE IF op = "restore_qos2" THEN SeqToSet(r.obs.qos2) ELSE g.handled
      h1 == h0 \cup { out[i].pkt.pid : i \in { j \in DOMAIN out : out[j].ev = "recv" /\ out[j].pkt.kind = "publish" /\ out[j].pkt.qos = 2 } }
      h2 == h1 \ ({ out[i].pkt.pid : i \in { j \in DOMAIN out : out[j].ev = "recv" /\ out[j].pkt.kind = "pubrel" } }
                  \cup { out[i].pkt.pid : i \in { j \in DOMAIN out : out[j].ev = "send" /\ out[j].pkt.kind = "pubrec" /\ out[j].pkt.rc >= 128 } })
      (* --- flow control --- *)
      inf0 == IF isConn THEN {} ELSE g.inflight
      inf1 == IF HandshakeDone(r)
              THEN { [pid |-> out[i].pkt.pid, tag |-> IF out[i].pkt.kind = "pubrel" THEN "rel" ELSE "pub"]
                     : i \in { j \in DOMAIN out : out[j].ev = "send" /\ out[j].pkt.kind \in {"publish", "pubrel"} } }
                   \cup (IF NewSession(r) THEN {} ELSE { [pid |-> e.pid, tag |-> "rel"] : e \in { x \in g.await : x.kind = "pubrel" } })
              ELSE IF IsSend(r, {"publish"}) /\ p.qos > 0 /\ SendsK(out, {"publish"}) # <<>>
                   THEN inf0 \cup { [pid |-> p.pid, tag |-> "pub"] }
              ELSE IF SendsK(out, {"pubrel"}) # <<>> /\ SendsK(out, {"pubrel"})[1].pkt.pid \notin { e.pid : e \in inf0 }
                   THEN inf0 \cup { [pid |-> SendsK(out, {"pubrel"})[1].pkt.pid, tag |-> "rel"] }
              ELSE inf0
      done == { out[i].pkt.pid : i \in { j \in DOMAIN out : out[j].ev = "recv" /\
                    (out[j].pkt.kind \in {"puback", "pubcomp"} \/ (out[j].pkt.kind = "pubrec" /\ out[j].pkt.rc >= 128)) } }
              \cup (IF op = "erase" THEN rel ELSE {})
      inf2 == { e \in inf1 : e.pid \notin done }
      inUn0 == IF isConn THEN {} ELSE g.inUn
      inUn1 == IF IsRecv(r, {"publish"}) /\ p.qos > 0 /\ (~HasErr(out) \/ RecvsK(out, {"publish"}) # <<>>) THEN inUn0 \cup {p.pid} ELSE inUn0
      inUn2 == inUn1 \ { out[i].pkt.pid : i \in { j \in DOMAIN out : out[j].ev = "send" /\
                    (out[j].pkt.kind \in {"puback", "pubcomp"} \/ (out[j].pkt.kind = "pubrec" /\ out[j].pkt.rc >= 128)) } }
      (* --- aliases --- *)
      rx0 == IF isConn \/ op \in {"closed", "crash"} THEN {} ELSE g.rx
      ai0 == IF isConn \/ op \in {"closed", "crash"} THEN {} ELSE g.aliasIn
      ai1 == IF IsRecv(r, {"publish"}) /\ p.topic # "" /\ p.alias # 0 /\ ~HasErr(out)
             THEN MapPut(ai0, p.alias, p.topic) ELSE ai0
  IN
  [g EXCEPT
     !.role = IF op = "new" THEN r.call.role ELSE @,
     !.ver  = IF op = "new" THEN r.call.ver ELSE IF g.ver = "undet" THEN r.obs.ver ELSE @,      \* get_protocol_version()
     !.idw  = IF op = "new" THEN r.call.idw ELSE @,
     !.tr   = IF op \in {"closed", "crash"} THEN FALSE ELSE IF ConnectSent(r) \/ op = "recv" THEN TRUE ELSE @,
     !.closeReq = IF op \in {"closed", "crash"} THEN FALSE ELSE @ \/ HasClose(out),
     !.everClosed = @ \/ op \in {"closed", "crash"},
     !.conn = conn2,
     !.nconn = IF isConn THEN @ + 1 ELSE @,
     !.client = IF ConnectSent(r) THEN TRUE ELSE IF ConnectRecvd(r) THEN FALSE ELSE @,
     !.persistent = persistent2,
     !.offline = IF op = "opt" /\ r.call.name = "offline" THEN r.call.flag ELSE @,
     !.autoPub = IF op = "opt" /\ r.call.name = "auto_pub" THEN r.call.flag ELSE @,
     !.armed = ArmedAfter(armed0, out, 1),
     !.used = used2 \ rel,
     !.held = held2,
     !.sub = IF isConn \/ op \in {"closed", "crash"} \/ newS THEN {}
             ELSE ((@ \cup (IF IsSend(r, {"subscribe"}) /\ SendsK(out, {"subscribe"}) # <<>> THEN {p.pid} ELSE {})) \ rel),
     !.unsub = IF isConn \/ op \in {"closed", "crash"} \/ newS THEN {}
             ELSE ((@ \cup (IF IsSend(r, {"unsubscribe"}) /\ SendsK(out, {"unsubscribe"}) # <<>> THEN {p.pid} ELSE {})) \ rel),
     !.await = aw4,
     !.handled = h2,
     !.inflight = inf2,
     !.inUn = inUn2,
     !.peerRM = IF ConnectSent(r) \/ op \in {"closed", "crash"} THEN 0
                ELSE IF ConnectRecvd(r) THEN (IF cp.rm >= 0 THEN cp.rm ELSE 0)
                ELSE IF ckOk /\ ck.rm >= 0 THEN ck.rm ELSE @,
     !.ownRM  = IF ConnectRecvd(r) \/ op \in {"closed", "crash"} THEN 0
                ELSE IF ConnectSent(r) THEN (IF cp.rm >= 0 THEN cp.rm ELSE 0)
                ELSE IF ConnackSentOk(r) /\ p.rm >= 0 THEN p.rm ELSE @,
     !.peerTAM = IF ConnectSent(r) \/ op \in {"closed", "crash"} THEN 0
                ELSE IF ConnectRecvd(r) THEN (IF cp.tam >= 0 THEN cp.tam ELSE 0)
                ELSE IF ckOk /\ ck.tam >= 0 THEN ck.tam ELSE @,
     !.ownTAM = IF ConnectRecvd(r) \/ op \in {"closed", "crash"} THEN 0
                ELSE IF ConnectSent(r) THEN (IF cp.tam >= 0 THEN cp.tam ELSE 0)
                ELSE IF ConnackSentOk(r) /\ p.tam >= 0 THEN p.tam ELSE @,
     !.peerMPS = IF ConnectSent(r) \/ op \in {"closed", "crash"} THEN NoLimit
                ELSE IF ConnectRecvd(r) THEN (IF cp.mps >= 0 THEN cp.mps ELSE NoLimit)
                ELSE IF ckOk /\ ck.mps >= 0 THEN ck.mps ELSE @,
     !.ownMPS = IF ConnectRecvd(r) \/ op \in {"closed", "crash"} THEN NoLimit
                ELSE IF ConnectSent(r) THEN (IF cp.mps >= 0 THEN cp.mps ELSE NoLimit)
                ELSE IF ConnackSentOk(r) /\ p.mps >= 0 THEN p.mps ELSE @,
     !.rx = RxAfter(rx0, out, 1),
     !.aliasIn = ai1,
     \* the same for exchanges the application abandoned with erase_stored_publish (history only)
     !.dropped = IF op = "erase" /\ rel # {} THEN { << x, AwaitOf(g, x) >> : x \in rel } ELSE      \* (the last one only)
                 IF isConn THEN {} ELSE IF HandshakeDone(r) THEN @ \cup { << x, AwaitOf(g, x) >> : x \in RelSet(out) } ELSE @,
     !.aliasHist = IF isConn \/ op \in {"closed", "crash"} THEN {}
                   ELSE IF IsRecv(r, {"publish"}) /\ p.topic # "" /\ p.alias # 0 /\ ~HasErr(out) THEN @ \cup { << p.alias, p.topic, p.qos >> } ELSE @,
     !.ka = IF isConn THEN cp.ka ELSE @,
     !.ska = IF isConn THEN -1 ELSE IF ckOk /\ ck.ska >= 0 THEN ck.ska ELSE IF ConnackSentOk(r) /\ p.ska >= 0 THEN p.ska ELSE @,
     !.user = IF op = "set_interval" THEN r.call.val ELSE @,
     !.respTimeout = IF op = "set_resp_timeout" THEN r.call.val ELSE @,
     !.newSess = IF isConn THEN cp.clean ELSE IF ckOk /\ ~ck.sp THEN TRUE ELSE IF op \in {"closed", "crash"} THEN FALSE ELSE @,
     !.echo = IF op = "send" /\ HasErr(out) /\ Sends(out) = <<>> THEN << p.kind, p.qos, p.topic, p.alias >> ELSE <<>>,
     !.skew = IF isConn THEN 0 ELSE @,
     !.shadow = r.shadow]

(* ===================================================================== C05 *)
(* totality, finite event list, every received frame accounted for, reconnectable *)
ViolC05(g, prev, r, g2) ==
  (IF r.panic THEN {"C05a-panic"} ELSE {})
  \cup (IF Len(r.out) > 24 + 2 * Len(prev.obs.stored) THEN {"C05a-event-list-bound"} ELSE {})
  \cup (IF Op(r) = "recv" /\ r.call.flag /\ ~r.panic       \* flag = this call completed a frame
           /\ Recvs(r.out) = <<>> /\ ~HasErr(r.out)
           \* a suppressed duplicate is excused - on an established connection only if it was ANSWERED (PUBREC)
           /\ ~(CP(r).kind = "publish" /\ CP(r).qos = 2 /\ CP(r).pid \in g.handled
                 /\ (g.conn # "connected" \/ SendsK(r.out, {"pubrec"}) # <<>>))
        THEN {"C05b-frame-not-accounted"} ELSE {})
  \cup (IF IsSend(r, {"connect"}) /\ g.conn = "disc" /\ ~g.tr /\ g.everClosed /\ ~r.panic
           /\ g.ver = CP(r).ver /\ g.role # "server"
           /\ (SendsK(r.out, {"connect"}) = <<>> \/ HasErr(r.out))
        THEN {"C05c-connect-refused-after-close"} ELSE {})
  \cup (IF IsRecv(r, {"connect"}) /\ g.conn = "disc" /\ ~g.tr /\ g.everClosed /\ ~r.panic
           /\ (g.ver = CP(r).ver \/ g.ver = "undet") /\ g.role # "client" /\ r.call.flag
           /\ RecvsK(r.out, {"connect"}) = <<>>
        THEN {"C05c-connect-not-accepted-after-close"} ELSE {})

(* ===================================================================== C06 *)
StAbs(e) == [kind |-> e.kind, pid |-> e.pid, qos |-> e.qos, topic |-> e.topic, msg |-> e.msg]
StoredAbs(stored) == [i \in DOMAIN stored |-> StAbs(stored[i])]
DropPid(seq, pid, kinds) == SelectSeq(seq, LAMBDA e : ~(e.pid = pid /\ e.kind \in kinds))

(* what the store must contain after step r, starting from what it contained before *)
ExpectedStore(g, prev, r, g2) ==
  LET s0 == IF NewSession(r) THEN <<>> ELSE StoredAbs(prev.obs.stored)
      p == CP(r)
      s1 == IF IsSend(r, {"publish"}) /\ p.qos > 0 /\ Accepted(r) /\ g2.persistent
            THEN Append(s0, [kind |-> "publish", pid |-> p.pid, qos |-> p.qos,
                             topic |-> IF p.topic = "" THEN MapGet(g.rx, p.alias) ELSE p.topic, msg |-> p.msg])
            ELSE s0
      s2 == IF IsRecv(r, {"puback"}) /\ RecvdPid(r.out, {"puback"}, p.pid) THEN SelectSeq(s1, LAMBDA e : ~(e.pid = p.pid /\ e.kind = "publish" /\ e.qos = 1))
            ELSE IF IsRecv(r, {"pubrec"}) /\ RecvdPid(r.out, {"pubrec"}, p.pid) THEN SelectSeq(s1, LAMBDA e : ~(e.pid = p.pid /\ e.kind = "publish" /\ e.qos = 2))
            ELSE IF IsRecv(r, {"pubcomp"}) /\ RecvdPid(r.out, {"pubcomp"}, p.pid) THEN DropPid(s1, p.pid, {"pubrel"})
            ELSE IF Op(r) = "erase" /\ RelSet(r.out) = {r.call.id} THEN DropPid(s1, r.call.id, {"publish"})
            ELSE s1
      rs == SendsK(r.out, {"pubrel"})
      s3 == IF ~HandshakeDone(r) /\ g2.persistent /\
               ((IsSend(r, {"pubrel"}) /\ Accepted(r)) \/ rs # <<>>)
            THEN LET pid == IF rs # <<>> THEN rs[1].pkt.pid ELSE p.pid IN
                 IF \E i \in DOMAIN s2 : s2[i].pid = pid THEN s2
                 ELSE Append(s2, [kind |-> "pubrel", pid |-> pid, qos |-> 0, topic |-> "", msg |-> ""])
            ELSE s2
  IN  s3

(* the packets that must be re-sent in a resume step: the store as it was, minus oversize ones *)
ResendList(prev, g2) == SelectSeq(prev.obs.stored, LAMBDA e : e.size <= g2.peerMPS)

ViolC06(g, prev, r, g2) ==
  LET p == CP(r)
      ackKinds == {"puback", "pubrec", "pubcomp"}
      resent == SendsK(r.out, {"publish", "pubrel"})
      want == ResendList(prev, g2)
  IN
  (IF IsSend(r, {"publish"}) /\ p.qos > 0 /\ Accepted(r)
      /\ SendsK(r.out, {"publish"}) = <<>> /\ ~(\E i \in DOMAIN r.obs.stored : r.obs.stored[i].pid = p.pid)
   THEN {"C06a-accepted-publish-dropped"} ELSE {})
  \cup (IF g2.persistent /\ ~HandshakeDone(r) /\ Op(r) \notin {"restore", "crash", "new"} /\ ~r.panic
           /\ StoredAbs(r.obs.stored) # ExpectedStore(g, prev, r, g2)
        THEN {"C06b-store-content"} ELSE {})
  \cup (IF \E i \in DOMAIN r.obs.stored :
              r.obs.stored[i].kind = "publish" /\ (~r.obs.stored[i].dup \/ r.obs.stored[i].topic = "" \/ r.obs.stored[i].alias # 0)
        THEN {"C06b-stored-form"} ELSE {})
  \cup (IF g2.persistent /\ \E i \in DOMAIN r.obs.stored : r.obs.stored[i].pid \notin SeqToSet(r.dig.used)
        THEN {"C06b-stored-id-not-held"} ELSE {})
  \cup (IF IsRecv(r, ackKinds) /\ r.call.flag /\ g.conn # "disc" /\ p.size <= g.ownMPS /\ ~r.panic /\ p.pid # 0
           /\ AwaitOf(g, p.pid) # p.kind
           /\ ~( HasErrNamed(r.out, {"ProtocolError"}) /\ RelSet(r.out) = {}
                 /\ r.obs.stored = prev.obs.stored
                 /\ r.dig.used = prev.dig.used /\ r.dig.puback = prev.dig.puback
                 /\ r.dig.pubrec = prev.dig.pubrec /\ r.dig.pubcomp = prev.dig.pubcomp )
        THEN {"C06c-unmatched-ack"} ELSE {})
  \cup (IF ResumeStep(r) /\ ~r.panic /\ ~(ConnackSentOk(r) /\ ~CP(r).sp)
           /\ [i \in DOMAIN resent |-> [resent[i].pkt EXCEPT !.size = 0]] # [i \in DOMAIN want |-> [want[i] EXCEPT !.size = 0]]
        THEN {"C06d-retransmission"} ELSE {})
  \cup (IF ResumeStep(r) /\ ~r.panic
           /\ \E i \in DOMAIN prev.obs.stored : prev.obs.stored[i].size > g2.peerMPS /\
                 (prev.obs.stored[i].pid \in { r.obs.stored[j].pid : j \in DOMAIN r.obs.stored }
                  \/ prev.obs.stored[i].pid \notin RelSet(r.out))
        THEN {"C06d-oversize-not-dropped"} ELSE {})
  \cup (IF NewSession(r) /\ ~r.panic
           /\ (r.obs.stored # <<>> \/ { prev.obs.stored[i].pid : i \in DOMAIN prev.obs.stored } \cap SeqToSet(r.dig.used) # {})
        THEN {"C06e-new-session-store"} ELSE {})

(* ===================================================================== C07 *)
(* does an inbound PUBLISH pass the checks the connection is allowed to make before delivering it *)
PassesValidation(g, p) ==
  /\ g.ver \in {"v311", "v50"} /\ p.ver = g.ver /\ p.bad = ""
  /\ g.conn # "disc"                  \* on a connection that is established or being established
  /\ p.size <= g.ownMPS
  /\ (p.qos > 0 => p.pid # 0)
  /\ g.ver = "v50" =>
       /\ (p.qos > 0 /\ g.ownRM > 0 => Cardinality(g.inUn) < g.ownRM)
       /\ IF p.topic = "" THEN p.alias # 0 /\ p.alias <= g.ownTAM /\ MapGet(g.aliasIn, p.alias) # ""
          ELSE p.alias = 0 \/ p.alias <= g.ownTAM
(* ... and one it may NOT deliver (so that either outcome is tolerated in between) *)
FailsValidation(g, p) ==
  g.ver = "v50" /\ p.bad = "" /\
    \/ (p.qos > 0 /\ g.ownRM > 0 /\ p.pid \notin g.inUn /\ Cardinality(g.inUn) >= g.ownRM)
    \/ (p.topic = "" /\ ~(p.alias # 0 /\ p.alias <= g.ownTAM /\ MapGet(g.aliasIn, p.alias) # ""))
    \/ (p.topic # "" /\ p.alias # 0 /\ p.alias > g.ownTAM)

ViolC07(g, prev, r, g2) ==
  LET p == CP(r) IN
  (IF IsRecv(r, {"publish"}) /\ r.call.flag /\ p.qos = 2 /\ PassesValidation(g, p) /\ ~r.panic
      /\ p.pid \notin g.handled /\ ~RecvdPid(r.out, {"publish"}, p.pid)
   THEN {"C07a-validated-publish-swallowed"} ELSE {})
  \cup (IF IsRecv(r, {"publish"}) /\ r.call.flag /\ p.qos = 2 /\ PassesValidation(g, p) /\ ~r.panic
           /\ p.pid \in g.handled
           /\ (RecvdPid(r.out, {"publish"}, p.pid) \/ (g.conn = "connected" /\ g.peerMPS >= 6 /\ ~SentPid(r.out, {"pubrec"}, p.pid)))
        THEN {"C07b-duplicate-not-suppressed"} ELSE {})
  \cup (IF ~r.panic /\ Op(r) # "new" /\ SeqToSet(r.obs.qos2) # g2.handled THEN {"C07c-handled-set"} ELSE {})

(* ===================================================================== C08 *)
ViolC08(g, prev, r, g2) ==
  LET p == CP(r)  rel == RelSeq(r.out)  relS == RelSet(r.out)
      maxId == IF g.idw = 32 THEN 2147483647 ELSE 65535
      before == IF NewSession(r) THEN {} ELSE g.used
      ackK == {"suback", "unsuback", "puback", "pubcomp"}
      pubPending == { e.pid : e \in g.await }
  IN
  (IF Op(r) \in {"acquire", "register", "release"} /\ r.panic THEN {"C08e-id-call-panics"} ELSE {})
  \cup (IF Op(r) = "acquire" /\ ~r.panic /\ r.call.ok /\ (r.call.id \in g.used \/ r.call.id < 1 \/ r.call.id > maxId)
        THEN {"C08a-acquire-not-unique"} ELSE {})
  \cup (IF Op(r) = "acquire" /\ ~r.panic /\ ~r.call.ok /\ Cardinality(g.used) < maxId THEN {"C08a-acquire-fails"} ELSE {})
  \cup (IF Op(r) = "register" /\ ~r.panic /\ r.call.ok # (r.call.id \notin g.used /\ 1 <= r.call.id /\ r.call.id <= maxId)
        THEN {"C08a-register"} ELSE {})
  \cup (IF \E i \in DOMAIN rel : rel[i] \notin before THEN {"C08b-release-of-free-id"} ELSE {})
  \cup (IF \E i, j \in DOMAIN rel : i # j /\ rel[i] = rel[j] THEN {"C08b-released-twice"} ELSE {})
  \cup (IF ~r.panic /\ \E i \in DOMAIN r.out : r.out[i].ev = "recv" /\ r.out[i].pkt.pid \in before /\ r.out[i].pkt.pid \notin relS
                          /\ (r.out[i].pkt.kind \in ackK \/ (r.out[i].pkt.kind = "pubrec" /\ r.out[i].pkt.rc >= 128))
        THEN {"C08c-completion-without-release"} ELSE {})
  \cup (IF Op(r) = "send" /\ Opens(p) /\ ~r.panic /\ HasErr(r.out) /\ SendsK(r.out, {p.kind}) = <<>>
           /\ p.pid \in before /\ p.pid \notin relS
        THEN {"C08c-refusal-without-release"} ELSE {})
  \* an identifier is released by the acknowledgement that MATCHES its exchange, not by one of another kind
  \cup (IF ~r.panic /\ IsRecv(r, {"suback", "unsuback", "puback", "pubrec", "pubcomp"}) /\ p.pid \in relS /\ p.pid # 0
           /\ ~( (p.kind = "suback" /\ p.pid \in g.sub) \/ (p.kind = "unsuback" /\ p.pid \in g.unsub)
                 \/ (p.kind \in {"puback", "pubrec", "pubcomp"} /\ AwaitOf(g, p.pid) = p.kind) )
        THEN {"C08c-released-by-wrong-acknowledgement"} ELSE {})
  \* ... and an acknowledgement that matches no exchange in flight starts nothing on that identifier (no PUBREL / PUBCOMP
  \* is sent for it): the identifier may by now belong to another exchange
  \cup (IF ~r.panic /\ IsRecv(r, {"puback", "pubrec", "pubcomp"}) /\ r.call.flag /\ p.pid # 0 /\ g.conn = "connected" /\ p.size <= g.ownMPS
           /\ AwaitOf(g, p.pid) # p.kind /\ SendsK(r.out, {"pubrel", "pubcomp", "puback", "pubrec"}) # <<>>
        THEN {"C08c-unmatched-acknowledgement-acted-upon"} ELSE {})
  \* "never leaked": a send that reports nothing, transmits nothing and stores nothing must not keep the identifier it
  \* carried - nothing will ever complete (or release) that exchange
  \cup (IF Op(r) = "send" /\ Opens(p) /\ ~r.panic /\ ~HasErr(r.out) /\ SendsK(r.out, {p.kind}) = <<>> /\ p.pid \in before
           /\ ~(\E i \in DOMAIN r.obs.stored : r.obs.stored[i].pid = p.pid) /\ p.pid \notin relS /\ p.pid \in SeqToSet(r.dig.used)
        THEN {"C08c-silent-send-keeps-id"} ELSE {})
  \cup (IF Op(r) \in {"closed", "crash"} /\ ~r.panic /\ ~((g.sub \cup g.unsub) \subseteq relS) THEN {"C08c-close-sub-ids"} ELSE {})
  \cup (IF Op(r) \in {"closed", "crash"} /\ ~r.panic /\ ~g.persistent /\ ~((pubPending \cap g.used) \subseteq relS) THEN {"C08c-close-publish-ids"} ELSE {})
  \cup (IF ~r.panic /\ Op(r) # "new" /\ SeqToSet(r.dig.used) # { x \in g2.used : x <= 40 } THEN {"C08d-in-use-set"} ELSE {})

(* ===================================================================== C12 *)
Counts(inf) == { Cardinality(inf), Cardinality({ e \in inf : e.tag = "pub" }) }

ViolC12(g, prev, r, g2) ==
  LET p == CP(r) IN
  (IF r.panic THEN {"C12c-panic"} ELSE {})
  \cup (IF ~r.panic /\ g2.ver = "v50" /\ g2.conn = "connected" /\ g2.peerRM > 0
           /\ r.obs.vacancy - g2.skew \notin { IF g2.peerRM > n THEN g2.peerRM - n ELSE 0 : n \in Counts(g2.inflight) }
        THEN {"C12a-vacancy"} ELSE {})
  \cup (IF IsSend(r, {"publish"}) /\ p.qos > 0 /\ ~r.panic /\ g.ver = "v50" /\ g.conn = "connected" /\ g.peerRM > 0
           /\ SendsK(r.out, {"publish"}) # <<>> /\ \A n \in Counts(g.inflight) : n >= g.peerRM
        THEN {"C12b-sent-beyond-receive-maximum"} ELSE {})
  \cup (IF IsSend(r, {"publish"}) /\ p.qos > 0 /\ ~r.panic /\ g.ver = "v50" /\ g.conn = "connected" /\ g.peerRM > 0
           /\ (\A n \in Counts(g.inflight) : n >= g.peerRM) /\ ~HasErr(r.out)
        THEN {"C12b-no-refusal-at-limit"} ELSE {})
  \cup (IF IsRecv(r, {"publish"}) /\ r.call.flag /\ p.qos > 0 /\ p.pid # 0 /\ ~r.panic /\ g.ver = "v50" /\ g.conn = "connected"
           /\ g.ownRM > 0 /\ p.size <= g.ownMPS /\ p.pid \notin g.inUn /\ Cardinality(g.inUn) >= g.ownRM
           /\ (RecvsK(r.out, {"publish"}) # <<>>
               \/ (g.peerMPS >= 3 /\ ~(\E i \in DOMAIN r.out : r.out[i].ev = "send" /\ r.out[i].pkt.kind = "disconnect" /\ r.out[i].pkt.rc = 147)))
        THEN {"C12e-inbound-excess"} ELSE {})

(* ===================================================================== C13 *)
(* walk the PUBLISH packets requested for sending, in order, against the receiver's table *)
RECURSIVE C13Walk(_, _, _, _, _, _)
C13Walk(rx, out, i, tam, intended, stored) ==
  IF i > Len(out) THEN {}
  ELSE LET e == out[i] IN
       IF e.ev = "send" /\ e.pkt.kind = "publish"
       THEN LET q == e.pkt
                want == IF intended # "?" THEN intended
                        ELSE LET S == { j \in DOMAIN stored : stored[j].pid = q.pid /\ stored[j].kind = "publish" }
                             IN  IF S = {} THEN "" ELSE stored[CHOOSE j \in S : TRUE].topic
                bad == IF q.topic = ""
                       THEN (IF ~(q.alias >= 1 /\ q.alias <= tam) THEN {"C13a-alias-out-of-range"} ELSE {})
                            \cup (IF MapGet(rx, q.alias) = "" THEN {"C13a-alias-never-bound"} ELSE {})
                            \cup (IF want # "" /\ MapGet(rx, q.alias) # "" /\ MapGet(rx, q.alias) # want THEN {"C13a-alias-resolves-to-other-topic"} ELSE {})
                       ELSE (IF want # "" /\ q.topic # want THEN {"C13b-topic-changed"} ELSE {})
                            \cup (IF q.alias # 0 /\ ~(q.alias >= 1 /\ q.alias <= tam) THEN {"C13b-alias-out-of-range"} ELSE {})
                rx2 == IF q.topic # "" /\ q.alias # 0 THEN MapPut(rx, q.alias, q.topic) ELSE rx
            IN  bad \cup C13Walk(rx2, out, i + 1, tam, intended, stored)
       ELSE C13Walk(rx, out, i + 1, tam, intended, stored)

ViolC13(g, prev, r, g2) ==
  LET p == CP(r)
      rx0 == IF Connect(r) THEN {} ELSE g.rx
      intended == IF IsSend(r, {"publish"}) THEN p.topic ELSE "?"
      rp == RecvsK(r.out, {"publish"})
  IN
  (IF r.panic THEN {} ELSE C13Walk(rx0, r.out, 1, g2.peerTAM, intended, prev.obs.stored))
  \cup (IF IsRecv(r, {"publish"}) /\ p.topic = "" /\ rp # <<>> /\ rp[1].pkt.topic # MapGet(g.aliasIn, p.alias)
        THEN {"C13c-delivered-with-wrong-topic"} ELSE {})
  \* regulate_for_store: the store form carries the full topic the alias is bound to on THIS connection and no alias;
  \* an alias-only packet whose alias was never bound cannot be regulated
  \cup (IF Op(r) = "regulate" /\ ~r.panic /\ p.topic # ""
           /\ ~(r.call.ok /\ Len(r.call.pkts) = 1 /\ r.call.pkts[1].topic = p.topic /\ r.call.pkts[1].alias = 0)
        THEN {"C13d-regulated-form"} ELSE {})
  \cup (IF Op(r) = "regulate" /\ ~r.panic /\ p.topic = "" /\ MapGet(g.rx, p.alias) # ""
           /\ ~(r.call.ok /\ Len(r.call.pkts) = 1 /\ r.call.pkts[1].topic = MapGet(g.rx, p.alias) /\ r.call.pkts[1].alias = 0)
        THEN {"C13d-regulated-form"} ELSE {})
  \cup (IF Op(r) = "regulate" /\ ~r.panic /\ p.topic = "" /\ MapGet(g.rx, p.alias) = "" /\ r.call.ok
        THEN {"C13d-unbound-alias-regulated"} ELSE {})
  \cup (IF IsRecv(r, {"publish"}) /\ r.call.flag /\ p.topic = "" /\ g.ver = "v50" /\ ~r.panic /\ p.size <= g.ownMPS
           /\ MapGet(g.aliasIn, p.alias) = "" /\ (rp # <<>> \/ ~HasErr(r.out))
        THEN {"C13c-unbound-alias-not-rejected"} ELSE {})
  \cup (IF IsRecv(r, {"publish"}) /\ p.topic # "" /\ rp # <<>> /\ rp[1].pkt.topic # p.topic
        THEN {"C13c-delivered-with-wrong-topic"} ELSE {})
  \cup (IF \E i \in DOMAIN r.obs.stored : r.obs.stored[i].kind = "publish" /\ (r.obs.stored[i].topic = "" \/ r.obs.stored[i].alias # 0)
        THEN {"C13d-stored-with-alias"} ELSE {})

(* ===================================================================== C14 *)
ViolC14(g, prev, r, g2) ==
  LET p == CP(r) IN
  (IF g2.ver = "v50" /\ \E i \in DOMAIN r.out : r.out[i].ev = "send" /\ r.out[i].pkt.size > g2.peerMPS
                          /\ ~(r.out[i].pkt.kind = "connect")
   THEN {"C14a-oversize-packet-sent"} ELSE {})
  \cup (IF ResumeStep(r) /\ ~r.panic
           /\ \E i \in DOMAIN prev.obs.stored : prev.obs.stored[i].size > g2.peerMPS /\
                 (prev.obs.stored[i].pid \in { r.obs.stored[j].pid : j \in DOMAIN r.obs.stored }
                  \/ prev.obs.stored[i].pid \notin RelSet(r.out))
        THEN {"C14b-oversize-stored-not-dropped"} ELSE {})
  \cup (IF Op(r) = "recv" /\ r.call.flag /\ p.bad = "" /\ ~r.panic /\ g.ver = "v50" /\ g.conn # "disc" /\ p.size > g.ownMPS
           /\ ( Recvs(r.out) # <<>> \/ ~HasErr(r.out)
                \/ (g.conn = "connected" /\ g.peerMPS >= 3 /\
                    ~(\E i \in DOMAIN r.out : r.out[i].ev = "send" /\ r.out[i].pkt.kind = "disconnect" /\ r.out[i].pkt.rc = 149)) )
        THEN {"C14c-oversize-inbound"} ELSE {})

(* ===================================================================== C15 *)
RECURSIVE CancelOk(_, _, _)
CancelOk(a, out, i) ==
  IF i > Len(out) THEN TRUE
  ELSE IF out[i].ev = "timer_cancel" THEN out[i].k \in a /\ CancelOk(a \ {out[i].k}, out, i + 1)
  ELSE IF out[i].ev = "timer_reset" THEN CancelOk(a \cup {out[i].k}, out, i + 1)
  ELSE CancelOk(a, out, i + 1)

Interval(g) == IF g.user >= 0 THEN g.user ELSE IF g.ska >= 0 THEN g.ska * 1000 ELSE g.ka * 1000
RecvTimeout(g) == ((IF g.ska >= 0 THEN g.ska ELSE g.ka) * 1000 * 3) \div 2

ViolC15(g, prev, r, g2) ==
  LET p == CP(r)
      a0 == IF Op(r) = "fire" THEN g.armed \ {r.call.k} ELSE g.armed
      iv == Interval(g2)
      rt == RecvTimeout(g2)
      v5 == g.ver = "v50"
  IN
  (IF ~CancelOk(a0, r.out, 1) THEN {"C15a-cancel-of-unarmed-timer"} ELSE {})
  \* "after the transport is reported closed or a DISCONNECT is sent no timer remains armed, nor does any LOCAL call arm one
  \* while disconnected" (a frame that still arrives between the DISCONNECT and the close is not a local call)
  \cup (IF ~r.panic /\ g2.conn = "disc" /\ g2.armed # {} /\ (Op(r) \in {"closed", "crash"} \/ DisconnectSent(r))
        THEN {"C15b-armed-while-disconnected"} ELSE {})
  \cup (IF ~r.panic /\ g2.conn = "disc" /\ Op(r) \notin {"recv", "garbage", "new"}
           /\ \E i \in DOMAIN r.out : r.out[i].ev = "timer_reset"
        THEN {"C15b-local-call-arms-while-disconnected"} ELSE {})
  \cup (IF ~r.panic /\ g2.client /\ g2.conn = "connected" /\ Sends(r.out) # <<>> /\ iv > 0 /\ ~HasReset(r.out, "pingreq_send", iv)
        THEN {"C15d-pingreq-timer-not-rearmed"} ELSE {})
  \cup (IF ~r.panic /\ g2.client /\ g2.conn \in {"connecting", "connected"} /\
           \E i \in DOMAIN r.out : r.out[i].ev = "timer_reset" /\ r.out[i].k = "pingreq_send" /\ r.out[i].ms # iv
        THEN {"C15d-pingreq-interval"} ELSE {})
  \cup (IF ~r.panic /\ ~g2.client /\ g2.conn \in {"connecting", "connected"} /\ Op(r) = "recv"
           /\ ( (\E i \in DOMAIN r.out : r.out[i].ev = "recv" /\ r.out[i].pkt.kind \notin {"pingresp", "disconnect"})
                \* a QoS 2 retransmission is accepted too (answered, not notified again)
                \/ (IsRecv(r, {"publish"}) /\ r.call.flag /\ p.qos = 2 /\ p.pid \in g.handled /\ ~HasErr(r.out)
                    /\ SendsK(r.out, {"pubrec"}) # <<>>) )
           /\ rt > 0 /\ ~HasReset(r.out, "pingreq_recv", rt)
        THEN {"C15e-receive-timer-not-rearmed"} ELSE {})
  \cup (IF ~r.panic /\ ~g2.client /\ g2.conn \in {"connecting", "connected"} /\
           \E i \in DOMAIN r.out : r.out[i].ev = "timer_reset" /\ r.out[i].k = "pingreq_recv" /\ (rt = 0 \/ r.out[i].ms # rt)
        THEN {"C15e-receive-timeout-value"} ELSE {})
  \* the receive timer is the SERVER's timer: an endpoint that is the client of this connection never arms it (an Any-role
  \* object may have been a server on the previous connection)
  \cup (IF ~r.panic /\ g2.client /\ g2.conn \in {"connecting", "connected"} /\
           \E i \in DOMAIN r.out : r.out[i].ev = "timer_reset" /\ r.out[i].k = "pingreq_recv"
        THEN {"C15e-client-arms-receive-timer"} ELSE {})
  \cup (IF ~r.panic /\ SendsK(r.out, {"pingreq"}) # <<>> /\ (g2.respTimeout > 0) # HasReset(r.out, "pingresp_recv", g2.respTimeout)
        THEN {"C15f-response-timer"} ELSE {})
  \cup (IF ~r.panic /\ HasResetK(r.out, "pingresp_recv") /\ (SendsK(r.out, {"pingreq"}) = <<>> \/ g2.respTimeout = 0)
        THEN {"C15f-response-timer"} ELSE {})
  \cup (IF ~r.panic /\ RecvsK(r.out, {"pingresp"}) # <<>> /\ "pingresp_recv" \in g.armed /\ ~HasCancel(r.out, "pingresp_recv")
        THEN {"C15f-pingresp-does-not-cancel"} ELSE {})
  \cup (IF Op(r) = "fire" /\ ~r.panic /\ g.conn = "connected" /\ r.call.k = "pingreq_send" /\ g.peerMPS >= 2
           /\ SendsK(r.out, {"pingreq"}) = <<>>
        THEN {"C15g-expiry-no-pingreq"} ELSE {})
  \cup (IF Op(r) = "fire" /\ ~r.panic /\ g.conn = "connected" /\ r.call.k \in {"pingreq_recv", "pingresp_recv"}
           /\ ( ~HasClose(r.out)
                \/ (v5 /\ g.peerMPS >= 3 /\ ~(\E i \in DOMAIN r.out : r.out[i].ev = "send" /\ r.out[i].pkt.kind = "disconnect" /\ r.out[i].pkt.rc = 141)) )
        THEN {"C15g-timeout-expiry-effect"} ELSE {})

(* ===================================================================== C19 *)
ViolC19(g, prev, r, g2) ==
  (IF \E i, j \in DOMAIN r.out : i < j /\ r.out[i].ev = "close" /\ r.out[j].ev = "send" THEN {"C19a-close-before-send"} ELSE {})
  \cup (IF ~r.panic /\ (DisconnectSent(r) \/ ConnackSentFail(r)) /\ ~HasClose(r.out) THEN {"C19b-final-packet-without-close"} ELSE {})
  \cup (IF Op(r) = "fire" /\ ~r.panic /\ g.conn = "connected" /\ r.call.k \in {"pingreq_recv", "pingresp_recv"} /\ ~HasClose(r.out)
        THEN {"C19c-timeout-without-close"} ELSE {})

(* ===================================================================== C11 *)
(* the gate over the ghost: may role/version/state send this packet (MQTT rules of the statement) *)
GateAllows(g, p) ==
  /\ g.ver = p.ver
  /\ RoleCanSend(g.role, p.kind, p.ver)
  /\ CASE p.kind = "connect" -> g.conn = "disc"
       [] p.kind = "connack" -> g.conn = "connecting" /\ ~g.client
       [] p.kind = "auth"    -> g.conn # "disc"
       [] p.kind = "publish" /\ p.qos > 0 -> g.conn = "connected" \/ g.offline \/ (g.conn = "connecting" /\ g.persistent)
       [] p.kind = "pubrel"  -> g.conn = "connected" \/ g.persistent
       [] OTHER -> g.conn = "connected"
(* is the refusal (if any) attributable to the gate alone: identifier fine, no limits in the way *)
GateOnly(g, p) ==
  /\ (Opens(p) \/ p.kind = "pubrel") => p.pid \in g.used
  /\ p.size <= g.peerMPS
  /\ p.kind = "publish" => (p.alias = 0 /\ p.topic # "" /\ (p.qos = 0 \/ g.peerRM = 0 \/ g.conn # "connected" \/ \A n \in Counts(g.inflight) : n < g.peerRM))

DigSansUsed(d) == [d EXCEPT !.used = <<>>]

ViolC11(g, prev, r, g2) ==
  LET p == CP(r)
      sent == SendsK(r.out, {p.kind}) # <<>>
      onlyErrRel == \A i \in DOMAIN r.out : r.out[i].ev = "error" \/ (r.out[i].ev = "released" /\ r.out[i].id = p.pid)
  IN
  IF Op(r) = "probe"      \* compile-time table: checked_send accepts exactly what the run-time role check accepts
  THEN (IF r.call.ok # RoleCanSend(r.call.role, p.kind, p.ver) THEN {"C11d-compile-time-table"} ELSE {})
  ELSE IF Op(r) # "send" \/ r.panic \/ ~GateOnly(g, p) THEN {}
  ELSE
  (IF ~GateAllows(g, p) /\ sent THEN {"C11a-forbidden-packet-sent"} ELSE {})
  \cup (IF GateAllows(g, p) /\ g.conn = "connected" /\ ~sent THEN {"C11a-allowed-packet-not-sent"} ELSE {})
  \cup (IF GateAllows(g, p) /\ p.kind \in {"connect", "connack", "auth"} /\ ~sent THEN {"C11a-allowed-packet-not-sent"} ELSE {})
  \* (a refusal that names a limit - the library keeps the last connection's Receive Maximum / Maximum Packet Size in
  \* force until the next CONNECT - is not the gate's refusal)
  \cup (IF GateAllows(g, p) /\ g.conn # "connected" /\ p.kind \in {"publish", "pubrel"} /\ ~sent
           /\ HasErrNamed(r.out, {"PacketNotAllowedToSend", "VersionMismatch"})
        THEN {"C11a-offline-packet-refused"} ELSE {})
  \cup (IF ~GateAllows(g, p) /\ ~(HasErr(r.out) /\ onlyErrRel) THEN {"C11b-refusal-events"} ELSE {})
  \cup (IF ~GateAllows(g, p) /\ Opens(p) /\ p.pid \in g.used /\ p.pid \notin RelSet(r.out) THEN {"C11b-refusal-keeps-id"} ELSE {})
  \cup (IF ~GateAllows(g, p) /\ DigSansUsed(r.dig) # DigSansUsed(prev.dig) THEN {"C11c-refusal-changes-state"} ELSE {})
  \cup (IF ~GateAllows(g, p) /\ SeqToSet(r.dig.used) # SeqToSet(prev.dig.used) \ RelSet(r.out) THEN {"C11c-refusal-changes-state"} ELSE {})

(* ===================================================================== C17 *)
PeerMaySend(role, ver, nib) ==
  ~( (role = "client" /\ (nib \in {1, 8, 10, 12} \/ (nib \in {14, 15} /\ ver = "v311")))
     \/ (role = "server" /\ (nib \in {2, 9, 11, 13} \/ (nib = 15 /\ ver = "v311")))
     \/ (role = "any" /\ nib = 15 /\ ver = "v311")
     \/ nib = 0 )

ViolC17(g, prev, r, g2) ==
  LET p == CP(r)
      nib == Nibble(p.kind)
      sessionSame == r.obs.stored = prev.obs.stored /\ r.obs.qos2 = prev.obs.qos2 /\ r.dig.used = prev.dig.used
                     /\ r.dig.puback = prev.dig.puback /\ r.dig.pubrec = prev.dig.pubrec /\ r.dig.pubcomp = prev.dig.pubcomp
  IN
  IF Op(r) # "recv" \/ ~r.call.flag \/ r.panic THEN (IF r.panic /\ Op(r) = "recv" THEN {"C17-panic"} ELSE {})
  ELSE
  (IF g.ver # "undet" /\ p.size <= g.ownMPS /\ ~PeerMaySend(g.role, g.ver, nib)
      /\ ~(HasErr(r.out) /\ Recvs(r.out) = <<>> /\ Sends(r.out) = <<>> /\ r.dig = prev.dig /\ r.obs = prev.obs)
   THEN {"C17a-forbidden-kind-acted-upon"} ELSE {})
  \cup (IF g.ver # "undet" /\ p.bad = "" /\ p.size <= g.ownMPS /\ PeerMaySend(g.role, g.ver, nib)
           /\ ((p.kind = "connect" /\ g.conn # "disc") \/ (p.kind = "connack" /\ g.conn = "connected"))
           /\ ~(HasErrNamed(r.out, {"ProtocolError"}) /\ Recvs(r.out) = <<>> /\ sessionSame)
        THEN {"C17b-handshake-packet-on-established-connection"} ELSE {})
  \* ... and a malformed one is not acted upon either: no CONNACK answers it, the session is untouched
  \cup (IF g.ver # "undet" /\ p.bad # "" /\ p.kind = "connect" /\ g.conn = "connected" /\ PeerMaySend(g.role, g.ver, nib)
           /\ ~(HasErr(r.out) /\ Recvs(r.out) = <<>> /\ sessionSame /\ SendsK(r.out, {"connack"}) = <<>>)
        THEN {"C17b-malformed-connect-on-established-connection"} ELSE {})
  \cup (IF g.ver = "undet" /\ (p.kind # "connect" \/ p.ver \notin {"v311", "v50"})
           /\ ~(HasErr(r.out) /\ Recvs(r.out) = <<>> /\ r.obs.ver = "undet")
        THEN {"C17c-undetermined-accepts-other-first-packet"} ELSE {})
  \cup (IF g.ver = "undet" /\ p.kind = "connect" /\ p.bad = "" /\ p.ver \in {"v311", "v50"}
           /\ ~(RecvsK(r.out, {"connect"}) # <<>> /\ r.obs.ver = p.ver)
        THEN {"C17c-version-not-adopted"} ELSE {})

(* ===================================================== C10 / C16 / C17d bisimulation *)
(* the harness runs a SHADOW object next to the reused / undetermined / crashed one and logs its
   event list as outF.  Events are compared as lists, `released` events as sets (hash order).     *)
NonRel(out) == SelectSeq(out, LAMBDA e : e.ev # "released")
SameEvents(a, b) == NonRel(a) = NonRel(b) /\ RelSet(a) = RelSet(b)

(* C11, last sentence: a twin object hands every packet to checked_send with its concrete type (where that type is
   Sendable for the role at compile time): same events and same getters as send(), at every step *)
ViolC11d(g, r) ==
  IF r.shadow = "checked" /\ ~g.twinOff /\ ~r.panic /\ ~(SameEvents(r.out, r.outF) /\ r.obs = r.obsF /\ ~r.panicF)
  THEN {"C11d-checked-send-differs-from-send"} ELSE {}

ViolC10(g, prev, r, g2) ==
  LET (* a new session has started on this connection, or this very call is the CONNECT that asks for one
         (compared even when the reused object refuses it) *)
      fresh == \/ r.shadow = "fresh" /\ (g2.newSess \/ ((IsSend(r, {"connect"}) \/ (IsRecv(r, {"connect"}) /\ r.call.flag)) /\ CP(r).clean))
               \* the fresh object was given the session: compared at every step of the connections that follow (a CONNECT
               \* that is refused establishes nothing - in particular not the fresh object's "keep the session" flag)
               \/ (r.shadow = "resumed" /\ (g.conn # "disc" \/ g2.conn # "disc"))
  IN
  (IF fresh /\ ~r.panic /\ ~SameEvents(r.out, r.outF)
   THEN {"C10-reused-object-differs-from-fresh"} ELSE {})
  \cup (IF fresh /\ ~r.panic /\ (r.obs.vacancy # r.obsF.vacancy \/ r.obs.stored # r.obsF.stored \/ r.obs.qos2 # r.obsF.qos2)
        THEN {"C10-reused-object-getters-differ"} ELSE {})
  \cup (IF Op(r) \in {"closed", "crash"} /\ ~r.panic /\ (g2.armed # {} \/ g2.sub # {} \/ g2.unsub # {}) THEN {"C10-left-over-after-close"} ELSE {})

ViolC17d(g, prev, r, g2) ==
  IF r.shadow = "fixed" /\ ~r.panic /\ ~(SameEvents(r.out, r.outF) /\ r.obs = r.obsF)
  THEN {"C17d-undetermined-differs-from-fixed-version"} ELSE {}

(* what a restore keeps of an export: QoS 0 entries and later entries of an identifier already seen are skipped *)
RECURSIVE KeptFrom(_, _, _)
KeptFrom(pkts, i, acc) ==
  IF i > Len(pkts) THEN acc
  ELSE LET e == pkts[i] IN
       IF (e.kind = "publish" /\ e.qos = 0) \/ (\E j \in DOMAIN acc : acc[j].pid = e.pid) THEN KeptFrom(pkts, i + 1, acc)
       ELSE KeptFrom(pkts, i + 1, Append(acc, StAbs(e)))
KeptOf(pkts) == KeptFrom(pkts, 1, <<>>)

ViolC16(g, prev, r, g2) ==
  LET resF == SendsK(r.outF, {"publish", "pubrel"})
      res  == SendsK(r.out, {"publish", "pubrel"})
  IN
  \* malformed exports (the same identifier twice, QoS 0 entries): skipped without panic AND without a trace - what is
  \* kept is the first entry of every identifier, and exactly those identifiers are in use / awaited
  (IF Op(r) = "restore" /\ r.panic THEN {"C16-restore-panics"} ELSE {})
  \cup (IF Op(r) = "restore" /\ ~r.panic /\ StoredAbs(r.obs.stored) # KeptOf(r.call.pkts) THEN {"C16-restore-content"} ELSE {})
  \cup (IF Op(r) = "restore" /\ ~r.panic
           /\ ~( SeqToSet(r.dig.puback) = { e.pid : e \in { x \in SeqToSet(KeptOf(r.call.pkts)) : x.kind = "publish" /\ x.qos = 1 } }
                 /\ SeqToSet(r.dig.pubrec) = { e.pid : e \in { x \in SeqToSet(KeptOf(r.call.pkts)) : x.kind = "publish" /\ x.qos = 2 } }
                 /\ SeqToSet(r.dig.pubcomp) = { e.pid : e \in { x \in SeqToSet(KeptOf(r.call.pkts)) : x.kind = "pubrel" } }
                 /\ SeqToSet(r.dig.used) = { e.pid : e \in SeqToSet(KeptOf(r.call.pkts)) } )
        THEN {"C16-skipped-entry-leaves-trace"} ELSE {})
  \cup
  \* "if at ANY point the application exports ...": every step is a possible export point, so what would be exported
  \* must at every step be exactly the accepted-and-not-completed messages in the order they were accepted
  (IF g2.persistent /\ ~HandshakeDone(r) /\ Op(r) \notin {"restore", "crash", "new"} /\ ~r.panic
      /\ StoredAbs(r.obs.stored) # ExpectedStore(g, prev, r, g2)
   THEN {"C16-export-content"} ELSE {})
  \cup
  IF r.shadow # "restored" \/ r.panic THEN (IF r.shadow = "restored" /\ r.panic THEN {"C16-panic"} ELSE {})
  ELSE
  (IF r.panicF THEN {"C16-restored-object-panics"} ELSE {})
  \cup (IF ResumeStep(r) /\ [i \in DOMAIN res |-> res[i].pkt] # [i \in DOMAIN resF |-> resF[i].pkt] THEN {"C16-retransmission-differs"} ELSE {})
  \cup (IF r.obs.stored # r.obsF.stored THEN {"C16-store-differs"} ELSE {})
  \cup (IF SeqToSet(r.obs.qos2) # SeqToSet(r.obsF.qos2) THEN {"C16-qos2-handled-differs"} ELSE {})
  \* ... and both keep suppressing what was notified before the crash (the copy would lose it in exactly the same way)
  \cup (IF SeqToSet(r.obsF.qos2) # g2.handled THEN {"C16-handled-set-lost"} ELSE {})
  \cup (IF g2.conn = "connected" /\ g2.peerRM > 0 /\ r.obs.vacancy # r.obsF.vacancy THEN {"C16-vacancy-differs"} ELSE {})
  \cup (IF ~SameEvents(SelectSeq(r.out, LAMBDA e : e.ev \in {"send", "recv", "error", "released", "close"}),
                       SelectSeq(r.outF, LAMBDA e : e.ev \in {"send", "recv", "error", "released", "close"}))
        THEN {"C16-events-differ"} ELSE {})

(* ------------------------------------------------------------ re-synchronisation *)
(* After a reported violation the affected ghost is set to the OBSERVED value, so that one defect is
   reported where it happens and not again at every later step of the same history. *)
Resync(g2, r, v) ==
  LET idv == v \cap {"C08d-in-use-set", "C08a-acquire-not-unique", "C08a-register", "C08b-release-of-free-id"} # {}
      seen == SeqToSet(r.dig.used)
  IN
  [g2 EXCEPT
     !.twinOff = @ \/ "C11d-checked-send-differs-from-send" \in v,
     !.used = IF idv THEN seen \cup { x \in @ : x > 40 } ELSE @,
     !.held = IF idv THEN { x \in @ : x \in seen \/ x > 40 } ELSE @,
     !.await = IF idv THEN { e \in @ : e.pid \in seen \/ e.pid > 40 } ELSE @,
     !.sub = IF idv THEN { x \in @ : x \in seen \/ x > 40 } ELSE @,
     !.unsub = IF idv THEN { x \in @ : x \in seen \/ x > 40 } ELSE @,
     !.handled = IF "C07c-handled-set" \in v THEN SeqToSet(r.obs.qos2) ELSE @,
     !.skew = IF "C12a-vacancy" \in v
              THEN r.obs.vacancy - (IF g2.peerRM > Cardinality(g2.inflight) THEN g2.peerRM - Cardinality(g2.inflight) ELSE 0)
              ELSE @]

(* ----------------------------------------------------------------- dispatcher *)
Viol(P, g, prev, r, g2) ==
  (IF "C05" \in P THEN ViolC05(g, prev, r, g2) ELSE {})
  \cup (IF "C06" \in P THEN ViolC06(g, prev, r, g2) ELSE {})
  \cup (IF "C07" \in P THEN ViolC07(g, prev, r, g2) ELSE {})
  \cup (IF "C08" \in P THEN ViolC08(g, prev, r, g2) ELSE {})
  \cup (IF "C10" \in P THEN ViolC10(g, prev, r, g2) ELSE {})
  \cup (IF "C11" \in P THEN ViolC11(g, prev, r, g2) \cup ViolC11d(g, r) ELSE {})
  \cup (IF "C12" \in P THEN ViolC12(g, prev, r, g2) ELSE {})
  \cup (IF "C13" \in P THEN ViolC13(g, prev, r, g2) ELSE {})
  \cup (IF "C14" \in P THEN ViolC14(g, prev, r, g2) ELSE {})
  \cup (IF "C15" \in P THEN ViolC15(g, prev, r, g2) ELSE {})
  \cup (IF "C16" \in P THEN ViolC16(g, prev, r, g2) ELSE {})
  \cup (IF "C17" \in P THEN ViolC17(g, prev, r, g2) \cup ViolC17d(g, prev, r, g2) ELSE {})
  \cup (IF "C19" \in P THEN ViolC19(g, prev, r, g2) ELSE {})
=============================================================================
