----------------------------- MODULE Trace_Codec -----------------------------
(***************************************************************************)
(* Judges what the real codec did (NDJSON written by harness `codec`)      *)
(* against the wire-format reference Codec.tla.  Node 0 is the root and    *)
(* lists every record as a child; one TLC state per record.  The judgement *)
(* of record n is made when TLC expands state n (so the workers share the  *)
(* records); every record then steps to one common sink state.             *)
(*                                                                         *)
(* MODE (environment) selects the property whose clauses are evaluated:    *)
(*   C02  round trip: size / contiguous / vectored / Remaining Length /    *)
(*        re-parse agree with each other                                   *)
(*   C03  agreement with the reference: bytes forwards, fields backwards   *)
(*   C18  property placement table: builder and parser against             *)
(*        Allowed / Repeatable / ForbiddenValue                            *)
(*   C04  accepted parser inputs are self-consistent and builder-valid     *)
(*        (valid = Codec.Broken(fields) is empty, or the live builder      *)
(*        accepts the same field values)                                   *)
(* Never stops at a violation: prints <<"VIOL", node, {clauses}>> lines    *)
(* (and <<"DRIFT", node, {notes}>> lines, which are not verdicts).         *)
(***************************************************************************)
EXTENDS Codec, TLC, Json, IOUtils

Rec  == ndJsonDeserialize(IOEnv.TRIE)
Mode == IOEnv.MODE
Node(i) == Rec[i + 1]

VARIABLE n
vars == << n >>

If2(c, name) == IF c THEN {name} ELSE {}

(* v3.1.1 acknowledgements carrying a reason code are an extension of the   *)
(* library (no OASIS encoding exists): excluded from the C03 comparison     *)
Ext(p) == p.v = "v311" /\ p.k \in AckKinds /\ p.rc # << >>

RlDec(r) == VbiDec(SubSeq(r.hdr, 2, Len(r.hdr)))

(* ---- C02: the serialisations, the size, the Remaining Length field and   *)
(* the re-parse agree with each other (no reference involved)               *)
C02Clauses(r) ==
  IF ~r.built THEN {}
  ELSE LET d == RlDec(r) IN
       If2(r.panic # "", "panic")
       \cup If2(r.size # r.cont_len, "size")
       \cup If2(~r.vec_equal \/ r.vec_len # r.cont_len, "vectored")
       \cup If2(~(d.ok /\ 1 + d.len + d.val = r.cont_len), "remaining-length")
       \cup If2(~r.rp_ok, "reparse-accepts")
       \cup If2(r.rp_ok /\ (~r.rp_eq \/ r.rp_fields # r.fields), "reparse-equal")
       \cup If2(r.rp_ok /\ d.ok /\ r.rp_consumed # r.cont_len - 1 - d.len, "consumed")
       \* other builder call sequences: a setter called twice (last call wins), will properties without a will
       \cup If2(r.rw \notin {"na", "ok"}, "rewrite-" \o r.rw)
       \cup If2(r.ow = "differs", "setter-overwrite")
       \cup If2(r.orphan = "unequal", "orphan-will-properties")
C02Drift(r) == If2(~r.built, "builder-rejected-valid-packet")

(* ---- C03: agreement with the reference                                   *)
C03Clauses(r) ==
  IF Ext(r.p) THEN {}
  ELSE If2(r.panic # "", "panic")
       \cup If2(r.built /\ (~r.fwd_equal \/ r.cont_len # SizeOf(r.p)), "bytes-forward")
       \cup If2(r.rwf = "differs", "rewrite-bytes-forward")     \* build without the alias, add_topic_alias: reference bytes
       \cup If2(~r.ref_ok, "reference-parse-accepts")
       \cup If2(r.ref_ok /\ r.ref_fields # r.p, "reference-parse-fields")
C03Drift(r) == If2(~r.built, "builder-rejected-valid-packet")
               \cup If2(r.built /\ r.fields # r.p, "accessors-differ-from-input")
               \cup If2(r.ref_ok /\ r.ref_consumed # BodySize(r.p), "reference-parse-consumed")
(* the harness must have used the reference bytes of this very packet       *)
Integrity(r) == r.ref_len = SizeOf(r.p)

(* ---- C18: builder and parser against the table                           *)
C18Clauses(r) ==
  LET expect == ValidPacket(r.p) IN
  If2(r.panic # "", "panic")
  \cup If2(expect /\ ~r.built, "builder-accepts")
  \cup If2(~expect /\ r.built, "builder-rejects")
  \cup If2(expect /\ ~r.ref_ok, "parser-accepts")
  \cup If2(~expect /\ r.ref_ok, "parser-rejects")
  \cup If2(r.built # r.ref_ok, "builder-parser-agree")

(* ---- C04: accepted inputs                                                *)
SubBroken(f) ==
  CASE f.k = "x-prop"  -> If(f.q.id \in PropIds /\ PropWellFormed(f.q), "prop-malformed")
                          \cup If(~ForbiddenValue(f.q), "prop-value")
    [] f.k = "x-props" -> If(\A i \in 1..Len(f.ps) : f.ps[i].id \in PropIds /\ PropWellFormed(f.ps[i]), "prop-malformed")
                          \cup If(\A i \in 1..Len(f.ps) : ~ForbiddenValue(f.ps[i]), "prop-value")
    [] f.k = "x-subentry" -> If(f.qos \in 0..2, "sub-qos-3") \cup If(f.rh \in 0..2, "sub-rh-3") \cup If(StrOK(f.filter), "filter-utf8")
    [] f.k = "x-string" -> If(StrOK(f.s), "string-utf8")
    [] OTHER -> {}
IsSub(k) == k \in {"x-prop", "x-props", "x-subentry", "x-string", "x-binary", "x-vbi"}
BrokenOf(f) == IF IsSub(f.k) THEN SubBroken(f) ELSE IF f.k = "none" THEN {"accessors-unreadable"} ELSE Broken(f)

C04Clauses(r) ==
  If2(r.panic # "", "panic")
  \cup (IF ~r.accepted THEN {}
        ELSE If2(r.consumed > r.in_len, "consumed")
             \cup If2(r.size # r.reser_len, "size")
             \cup If2(~r.rp_ok, "reparse-equal:rejected")
             \cup If2(r.rp_ok /\ (~r.rp_eq \/ r.rp_fields # r.fields), "reparse-equal:differs")
             \* "the structural rules the builders enforce": a rule of Codec.Broken counts only while
             \* the live builder path also refuses these very field values (r.rebuild_ok = FALSE)
             \cup (IF r.rebuild_ok THEN {} ELSE { "valid-after-accept:" \o b : b \in BrokenOf(r.fields) }))
C04Drift(r) ==
  IF ~r.accepted THEN {}
  ELSE If2(r.reject /\ BrokenOf(r.fields) = {}, "lenient:invalid-input-normalised-by-parser")
       \cup If2(~IsSub(r.k) /\ r.fields.k # "none" /\ r.reser_len <= 400 /\ r.reser_len > 0
                  /\ Runs(Flat(Enc(r.fields))) # r.reser, "not-canonical")
       \cup If2(~r.rebuild_ok /\ BrokenOf(r.fields) = {}, "builder-stricter-than-specification")
       \cup If2(r.rebuild_ok /\ BrokenOf(r.fields) # {}, "specification-stricter-than-builder")

Clauses(r) ==
  CASE Mode = "C02" -> C02Clauses(r)
    [] Mode = "C03" -> C03Clauses(r)
    [] Mode = "C18" -> C18Clauses(r)
    [] Mode = "C04" -> C04Clauses(r)
Drift(r) ==
  CASE Mode = "C02" -> C02Drift(r)
    [] Mode = "C03" -> C03Drift(r)
    [] Mode = "C04" -> C04Drift(r)
    [] OTHER -> {}
IntegrityOK(r) == Mode \notin {"C02", "C03", "C18"} \/ Integrity(r)

Judge(r) ==
  LET c == Clauses(r)
      d == Drift(r)
  IN  /\ (IF c = {} THEN TRUE ELSE PrintT(<< "VIOL", r.id, c >>))
      /\ (IF d = {} THEN TRUE ELSE PrintT(<< "DRIFT", r.id, d >>))
      /\ (IF IntegrityOK(r) THEN TRUE ELSE PrintT(<< "INTEGRITY", r.id >>))

Init == n = 0
Next ==
  \/ n = 0 /\ \E k \in 1..Len(Node(0).kids) : n' = Node(0).kids[k]
  \/ n > 0 /\ Judge(Node(n)) /\ n' = -1
Spec == Init /\ [][Next]_vars

(* every record was judged: root + records + the sink *)
AllVisited ==
  LET want == IF Len(Rec) = 1 THEN 1 ELSE Len(Rec) + 1 IN
  IF TLCGet("stats").distinct = want THEN TRUE ELSE PrintT(<< "UNVISITED", TLCGet("stats").distinct, want >>)
=============================================================================
