#!/bin/bash
# run all twenty thorough checks from the current directory (a snapshot of /verif); summary lines on stdout
./setup.sh > setup.log 2>&1 || { echo "SETUP FAILED"; tail -5 setup.log; exit 2; }
for i in 20 18 02 03 04 09 15 07 16 11 13 19 17 14 12 06 08 05 10 01; do
  s=$(date +%s)
  out=$(./check C$i thorough 2>&1); rc=$?
  e=$(date +%s)
  echo "C$i exit=$rc $((e-s))s viol=$(echo "$out" | grep -c '^VIOLATION') known=$(echo "$out" | grep -c '^KNOWN-FINDING')"
  echo "$out" | grep -E '^VIOLATION|TOOL-ERROR|Traceback|Error' | head -5 | cut -c1-300
done
echo DONE
