#!/bin/bash
# run all twenty quick checks on the current tree; summary lines in work/allquick.log
cd /verif
: > work/allquick.log
for i in 01 02 03 04 05 06 07 08 09 10 11 12 13 14 15 16 17 18 19 20; do
  s=$(date +%s)
  out=$(./check C$i quick 2>&1); rc=$?
  e=$(date +%s)
  echo "C$i exit=$rc $((e-s))s viol=$(echo "$out" | grep -c '^VIOLATION') known=$(echo "$out" | grep -c '^KNOWN-FINDING')" >> work/allquick.log
  echo "$out" | grep -E '^VIOLATION|TOOL-ERROR|Traceback' | head -5 | cut -c1-300 >> work/allquick.log
done
echo DONE >> work/allquick.log
