#!/bin/bash
# run every seeded change against the quick check of its own property; summary in work/corpus.log
cd /verif
: > work/corpus.log
for d in seeded/*/; do
  id=$(basename $d)
  [ -f $d/patch.diff ] || continue
  prop=$(python3 -c "import json;print(json.load(open('$d/meta.json'))['property'].split()[0])" 2>/dev/null)
  case $id in H12) prop=C13;; H05) prop=C12;; esac
  git -C /repo diff --quiet || { echo "$id /repo dirty" >> work/corpus.log; exit 2; }
  git -C /repo apply /verif/$d/patch.diff 2>/dev/null || { echo "$id APPLY-FAILED" >> work/corpus.log; continue; }
  s=$(date +%s)
  out=$(./check $prop quick 2>&1); rc=$?
  e=$(date +%s)
  git -C /repo checkout -- .
  echo "$id $prop exit=$rc $((e-s))s viol=$(echo "$out" | grep -c '^VIOLATION') $(echo "$out" | grep '^VIOLATION' | head -1 | sed 's/.*clause=//' | cut -c1-90)" >> work/corpus.log
done
echo DONE >> work/corpus.log
