#!/bin/bash
# thorough tier of the connection-level checks only (the codec / framing / allocator checks do not depend on lib/endpoint.py)
./setup.sh > setup.log 2>&1 || { echo "SETUP FAILED"; tail -5 setup.log; exit 2; }
for i in 12 08 13 05 06 16 11 19 17 14 15 07 10 01; do
  s=$(date +%s)
  out=$(./check C$i thorough 2>&1); rc=$?
  e=$(date +%s)
  echo "C$i exit=$rc $((e-s))s viol=$(echo "$out" | grep -c '^VIOLATION') known=$(echo "$out" | grep -c '^KNOWN-FINDING')"
  echo "$out" | grep -E '^VIOLATION|TOOL-ERROR|Traceback|Error|second pass' | head -5 | cut -c1-300
done
echo DONE
