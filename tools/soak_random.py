#!/usr/bin/env python3
"""Soak of the seeded random drivers on the CURRENT tree: many long random histories per property and seed, judged by
the trace specification. Every signature that is not a known finding is a flaw of a predicate (or a defect) to look at.
usage: soak_random.py <n histories> <seed> [<seed> ...]      (results: work/soak_random.log)"""
import json, os, sys
sys.path.insert(0, os.path.join(os.path.dirname(os.path.abspath(__file__)), "..", "lib"))
import endpoint, endpoint_props, vlib

n = sys.argv[1]
seeds = sys.argv[2:]
binary = vlib.build("conn-harness")
log = open(os.path.join(vlib.ROOT if hasattr(vlib, "ROOT") else "/verif", "work", "soak_random.log"), "a")
for seed in seeds:
    for prop, cfg in endpoint_props.TABLE.items():
        wd = os.path.join(vlib.workdir("soak"), "%s_%s" % (prop, seed))
        os.makedirs(wd, exist_ok=True)
        trie = os.path.join(wd, "trie.ndjson")
        args = ["run"] + (["--checked"] if prop == "C11" else []) + ["--drive", n, "--seed", seed, "--steps", "120", "--profile", cfg.get("profile", "mixed"), "--out", trie]
        hs = vlib.harness(binary, args, timeout=3000)
        viols, drifts, _ = endpoint.judge(prop, trie, wd, workers=6)
        nodes = vlib.load_trie(trie)
        groups = endpoint.group(prop, nodes, viols)
        known = vlib.known_findings() if hasattr(vlib, "known_findings") else []
        line = "seed=%s %s nodes=%d signatures=%d" % (seed, prop, len(nodes), len(groups))
        print(line); log.write(line + "\n")
        mk = endpoint.make_replay_fn(nodes)
        for sig, g in groups.items():
            rp = os.path.join(wd, "replay_%s.json" % abs(hash(sig)))
            json.dump(dict(mk(g["example"]), property=prop, clause=g["clause"], pattern=g["pattern"]), open(rp, "w"))
            l2 = "   %s count=%d replay=%s" % (sig, g["count"], rp)
            print(l2); log.write(l2 + "\n")
        log.flush()
        os.remove(trie)
